"""C14: one harness per comparison impl scraped from src/bytes.rs and src/bytes_mut.rs.

Every `impl PartialEq<R> for L`, `impl PartialOrd<R> for L`, `impl Ord for L`, `impl Hash for L`, `impl Borrow<[u8]> for L`
found in the working tree gets a harness in which both byte strings are symbolic (length 0..=3, all 256 values; str-typed
operands ASCII) and the result is compared with the same operator on the model slices.  An impl the generator does
not know how to instantiate is reported (inconclusive), never skipped silently.
"""
import re, os

IMPL = re.compile(r"^impl(?:<[^>]*>)?\s+(?:hash::|core::hash::)?(PartialEq|PartialOrd|Ord|Hash|Borrow|BorrowMut)(?:<(.+?)>)?\s+for\s+(.+?)\s*(?:\{|$)", re.M)

# type -> (prelude making variable V from array A and length N, expression of that type, needs_ascii)
def operand(ty, V, A, N, rep):
    ty = ty.strip()
    if ty == "Bytes":
        reps = ["Rep::Static", "Rep::Shared", "Rep::Promo"]
        return ("let %s_full = mk_bytes(%s, &%s); let %s = %s_full.slice(..%s);" % (V, reps[rep % 3], A, V, V, N), V, False)
    if ty == "BytesMut":
        reps = ["MRep::VecOff", "MRep::Vec", "MRep::ArcUnique"]
        return ("let mut %s = mk_bm(%s, &%s); %s.truncate(%s);" % (V, reps[rep % 3], A, V, N), V, False)
    if ty == "[u8]":
        return ("let %s: &[u8] = &%s[..%s];" % (V, A, N), "(*%s)" % V, False)
    if ty in ("&[u8]", "&'a [u8]"):
        return ("let %s: &[u8] = &%s[..%s];" % (V, A, N), V, False)
    if ty == "Vec<u8>":
        return ("let mut %s: Vec<u8> = vec_exact(&%s); %s.truncate(%s);" % (V, A, V, N), V, False)
    if ty == "str":
        return ("assume_ascii(&%s); let %s: &str = unsafe { core::str::from_utf8_unchecked(&%s[..%s]) };" % (A, V, A, N), "(*%s)" % V, True)
    if ty in ("&str", "&'a str"):
        return ("assume_ascii(&%s); let %s: &str = unsafe { core::str::from_utf8_unchecked(&%s[..%s]) };" % (A, V, A, N), V, True)
    if ty == "String":
        return ("assume_ascii(&%s); let mut %s_v: Vec<u8> = vec_exact(&%s); %s_v.truncate(%s); let %s: String = unsafe { String::from_utf8_unchecked(%s_v) };" % (A, V, A, V, N, V, V), V, True)
    return None


def ident(ty):
    return (ty.replace("&'a ", "ref_").replace("&", "ref_").replace("[u8]", "slice").replace("<u8>", "").replace(" ", "")
            .replace("'", "").lower())


def generate(repo):
    impls = []
    for f in ("src/bytes.rs", "src/bytes_mut.rs"):
        src = open(os.path.join(repo, f)).read()
        for m in IMPL.finditer(src):
            line = src[:m.start()].count("\n") + 1
            impls.append((m.group(1), m.group(2), m.group(3).strip(), f, line))
    out = []
    inconc = []
    names = set()
    pairs = set((t, r, l) for (t, r, l, _, _) in impls)
    n_h = 0
    hdr = """//! generated from the impl table of src/bytes.rs and src/bytes_mut.rs - do not edit
use crate::util::*;
use alloc::string::String;
use alloc::vec::Vec;
use bytes::{Bytes, BytesMut};
use core::cmp::Ordering;

const L: usize = 3;
fn two() -> ([u8; L], usize, [u8; L], usize) {
    let a: [u8; L] = kani::any();
    let c: [u8; L] = kani::any();
    (a, any_len(L), c, any_len(L))
}
"""
    out.append(hdr)
    for idx, (trait, rhs, lhs, f, line) in enumerate(impls):
        if trait == "BorrowMut":
            continue
        generic = False
        lhs_ty = lhs
        rhs_list = [rhs]
        if rhs is None and trait in ("PartialEq", "PartialOrd"):
            rhs_list = [lhs]
        if rhs is not None and rhs.startswith("&'a T"):
            # blanket impl over &T: instantiate with T = [u8] and T = str
            rhs_list = ["&[u8]", "&str"]
            generic = True
        for rhs_ty in rhs_list:
            for rep in (0, 1, 2):
                tier = "quick" if rep == idx % 3 else "thorough"
                where = "%s:%d" % (f, line)
                if trait in ("PartialEq", "PartialOrd"):
                    L_ = operand(lhs_ty, "l", "a", "n", rep)
                    R_ = operand(rhs_ty, "r", "c", "k", rep + 1)
                    if L_ is None or R_ is None:
                        inconc.append({"props": ["C14"], "text": "no instantiation for impl %s<%s> for %s at %s" % (trait, rhs_ty, lhs_ty, where)})
                        break
                    # representation only matters when a crate type is involved on that side
                    name = "c14_%s_%s_%s_r%d" % ("eq" if trait == "PartialEq" else "ord", ident(lhs_ty), ident(rhs_ty), rep)
                    if name in names:
                        continue
                    names.add(name)
                    body = []
                    body.append("    let (a, n, c, k) = two();")
                    body.append("    " + L_[0])
                    body.append("    " + R_[0])
                    le, re_ = L_[1], R_[1]
                    if trait == "PartialEq":
                        body.append("    let exp = a[..n] == c[..k];")
                        body.append("    assert!((%s == %s) == exp);" % (le, re_))
                        body.append("    assert!((%s != %s) == !exp);" % (le, re_))
                        body.append("    kani::cover!(exp && n == L, \"equal full length\");")
                        body.append("    kani::cover!(!exp && n == k && n > 0, \"same length different bytes\");")
                    else:
                        body.append("    let exp: Option<Ordering> = a[..n].partial_cmp(&c[..k]);")
                        body.append("    let got: Option<Ordering> = %s.partial_cmp(&%s);" % (le, re_))
                        body.append("    assert!(got == exp);")
                        body.append("    assert!((%s < %s) == (exp == Some(Ordering::Less)));" % (le, re_))
                        body.append("    assert!((%s <= %s) == (exp != Some(Ordering::Greater)));" % (le, re_))
                        body.append("    assert!((%s > %s) == (exp == Some(Ordering::Greater)));" % (le, re_))
                        body.append("    assert!((%s >= %s) == (exp != Some(Ordering::Less)));" % (le, re_))
                        # antisymmetry across the pair of impls when the mirrored impl exists
                        if ("PartialOrd", lhs_ty, rhs_ty) in pairs or (rhs_ty in ("&[u8]", "&str") and ("PartialOrd", "&'a T", rhs_ty) in pairs) or lhs_ty == rhs_ty:
                            body.append("    let back: Option<Ordering> = %s.partial_cmp(&%s);" % (re_, le))
                            body.append("    assert!(back == exp.map(Ordering::reverse));")
                        body.append("    kani::cover!(exp == Some(Ordering::Less) && n > k, \"less although longer\");")
                        body.append("    kani::cover!(exp == Some(Ordering::Greater) && n < k, \"greater although shorter\");")
                        body.append("    kani::cover!(exp == Some(Ordering::Equal) && n == L, \"equal full length\");")
                    body.append("    end_reached!();")
                    out.append("// @h props=C14 tier=%s group=cmp note=impl_%s<%s>_for_%s@%s\n#[kani::proof]\n#[kani::unwind(6)]\npub fn %s() {\n%s\n}\n" % (
                        tier, trait, rhs_ty.replace(" ", ""), lhs_ty.replace(" ", ""), where, name, "\n".join(body)))
                    n_h += 1
                elif trait == "Ord":
                    L_ = operand(lhs_ty, "l", "a", "n", rep)
                    R_ = operand(lhs_ty, "r", "c", "k", rep + 1)
                    name = "c14_cmp_%s_r%d" % (ident(lhs_ty), rep)
                    if L_ is None:
                        inconc.append({"props": ["C14"], "text": "no instantiation for impl Ord for %s at %s" % (lhs_ty, where)})
                        break
                    out.append("""// @h props=C14 tier=%s group=cmp note=impl_Ord_for_%s@%s
#[kani::proof]
#[kani::unwind(6)]
pub fn %s() {
    let (a, n, c, k) = two();
    %s
    %s
    let exp = a[..n].cmp(&c[..k]);
    assert!(l.cmp(&r) == exp);
    assert!(r.cmp(&l) == exp.reverse());
    assert!(l.partial_cmp(&r) == Some(exp));
    assert!((l == r) == (exp == Ordering::Equal));
    kani::cover!(exp == Ordering::Less && n > k, "less although longer");
    end_reached!();
}
""" % (tier, lhs_ty, where, name, L_[0], R_[0]))
                    n_h += 1
                elif trait == "Hash":
                    L_ = operand(lhs_ty, "l", "a", "n", rep)
                    name = "c14_hash_%s_r%d" % (ident(lhs_ty), rep)
                    if L_ is None:
                        inconc.append({"props": ["C14"], "text": "no instantiation for impl Hash for %s at %s" % (lhs_ty, where)})
                        break
                    out.append("""// @h props=C14 tier=%s group=hash note=impl_Hash_for_%s@%s
#[kani::proof]
#[kani::unwind(10)]
pub fn %s() {
    use core::hash::Hash;
    let a: [u8; L] = kani::any();
    let n = any_len(L);
    %s
    let mut h1 = RecHasher::new();
    let mut h2 = RecHasher::new();
    l.hash(&mut h1);
    a[..n].hash(&mut h2);
    // identical sequence of Hasher::write calls (lengths and bytes), i.e. the same hash under every Hasher
    assert!(h1.n == h2.n && h1.calls == h2.calls);
    let i = any_below(48);
    assert!(h1.buf[i] == h2.buf[i]);
    kani::cover!(n == L, "full length hashed");
    end_reached!();
}
""" % (tier, lhs_ty, where, name, L_[0]))
                    n_h += 1
                elif trait == "Borrow":
                    L_ = operand(lhs_ty, "l", "a", "n", rep)
                    name = "c14_borrow_%s_r%d" % (ident(lhs_ty), rep)
                    if L_ is None or rhs_ty != "[u8]":
                        inconc.append({"props": ["C14"], "text": "no instantiation for impl Borrow<%s> for %s at %s" % (rhs_ty, lhs_ty, where)})
                        break
                    out.append("""// @h props=C14 tier=%s group=hash note=impl_Borrow_for_%s@%s
#[kani::proof]
#[kani::unwind(6)]
pub fn %s() {
    use core::borrow::Borrow;
    let a: [u8; L] = kani::any();
    let n = any_len(L);
    %s
    let s: &[u8] = l.borrow();
    assert!(same_bytes(s, &a[..n]));
    kani::cover!(n == L, "full length borrowed");
    end_reached!();
}
""" % (tier, lhs_ty, where, name, L_[0]))
                    n_h += 1
    # aliasing operands: both Bytes are views of ONE buffer (same or different start, same or different length);
    # an implementation shortcut on pointer identity must still answer like the slices
    for rep, repname in enumerate(["Rep::Static", "Rep::Shared", "Rep::Promo", "Rep::Owner"]):
        if ("PartialEq", None, "Bytes") in pairs or ("PartialEq", "Bytes", "Bytes") in pairs:
            out.append("""// @h props=C14 tier=%s group=cmp note=aliasing_views_of_one_buffer_%s
#[kani::proof]
#[kani::unwind(7)]
pub fn c14_alias_bytes_bytes_r%d() {
    const K: usize = 4;
    let a: [u8; K] = kani::any();
    let full = mk_bytes(%s, &a);
    let o1 = any_len(K);
    let n = any_len(K - o1);
    let o2 = any_len(K);
    let k = any_len(K - o2);
    let l = full.slice(o1..o1 + n);
    let r = full.slice(o2..o2 + k);
    let ml = &a[o1..o1 + n];
    let mr = &a[o2..o2 + k];
    assert!((l == r) == (ml == mr));
    assert!((l != r) == (ml != mr));
    assert!(l.partial_cmp(&r) == ml.partial_cmp(mr));
    assert!(l.cmp(&r) == ml.cmp(mr));
    assert!((l < r) == (ml < mr));
    kani::cover!(o1 == o2 && n != k && n > 0 && k > 0, "same start, different length");
    kani::cover!(o1 != o2 && n == k && ml == mr && n > 1, "different start, equal contents");
    end_reached!();
}
""" % ("quick" if rep in (1, 2) else "thorough", repname.split("::")[1], rep, repname))
            n_h += 1
    # family vacuity witness
    out.append("""// @h props=C14 tier=quick flags=witness group=cmp
#[kani::proof]
#[kani::unwind(6)]
pub fn c14_witness() {
    let (a, n, c, k) = two();
    let l_full = mk_bytes(Rep::Shared, &a);
    let l = l_full.slice(..n);
    let mut r = mk_bm(MRep::VecOff, &c);
    r.truncate(k);
    assert!((l == r) == (a[..n] == c[..k]));
    assert!(false, "VACUITY_WITNESS");
}
""")
    return {"files": {"c14.rs": "\n".join(out)}, "summary": {"impls_scraped": len(impls), "harnesses": n_h + 1},
            "inconclusive": inconc}
