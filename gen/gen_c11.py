"""C11: typed putters.  The method list is scraped from `pub unsafe trait BufMut`; every put_X gets, per target,
  * a "fits" harness: value symbolic (nbytes symbolic 0..=8 for uint/int); the bytes appended at the old cursor equal
    an independent shift-based encoding (symbolic index), a following put_u8 lands right behind it (call order),
    remaining_mut decreased by exactly the width (fixed-size targets), every byte outside the written range is
    unchanged (guards, symbolic index), and the matching get_X reads the value back (bits);
  * a "does not fit" harness: remaining_mut symbolic in 0..width: the call must not return, and an observer installed
    in place of the crate's panic_advance asserts that no guard byte has been modified when the panic is raised.
Targets: &mut [u8], &mut [MaybeUninit<u8>], Vec<u8> (with / without growth), BytesMut, Chain of two windows with a
symbolic split, Limit (symbolic limit), SymBufMut with 1-byte and 3-byte chunks (and fully symbolic chunking for
widths <= 4), &mut B, Box<B>.
"""
import re, os

HDR = r'''//! generated from `pub unsafe trait BufMut` of src/buf/buf_mut.rs - do not edit
use crate::symbuf::SymBufMut;
use crate::util::*;
use alloc::boxed::Box;
use alloc::vec::Vec;
use bytes::{Buf, BufMut, Bytes, BytesMut};
use core::mem::MaybeUninit;

/// independent reference encoders: byte i of the w-byte big/little endian encoding of the low w bytes of v
fn be_byte(v: u128, w: usize, i: usize) -> u8 {
    (v >> (8 * (w - 1 - i))) as u8
}
fn le_byte(v: u128, _w: usize, i: usize) -> u8 {
    (v >> (8 * i)) as u8
}

const G: u8 = 0xA5;

/// forces dispatch through `impl<T: BufMut + ?Sized> BufMut for &mut T` (the deref_forward_bufmut! bodies): with plain
/// method syntax `(&mut inner).put_x(..)` auto-deref selects the inner type's own impl and the forwarder is never run
pub struct Fwd<'a, B: BufMut>(pub &'a mut B);
macro_rules! fwd_methods {
    ($($m:ident($($a:ident: $t:ty),*)),* $(,)?) => { $( pub fn $m(&mut self, $($a: $t),*) { <B as BufMut>::$m(self.0, $($a),*) } )* };
}
impl<'a, B: BufMut> Fwd<'a, B> {
    pub fn remaining_mut(&self) -> usize { <B as BufMut>::remaining_mut(self.0) }
    fwd_methods!(__FWD_METHODS__);
}
'''

# target -> (setup, put-context).  setup defines: `mem` ([u8; N] guard array or equivalent), `lo`, `cap0` (writable bytes
# before the call, usize::MAX-like for growable), and a block that performs `$PUT` on the target and leaves
# `out: &[u8]` = all bytes the target now holds from its old cursor, `rem_after: Option<usize>`.
def target_code(t, W, put, put2, fixed_cap):
    """returns harness body lines up to the definition of `out` (slice of written bytes, len >= need) and `rem_delta_ok`"""
    if t == "slice":
        return """    let mut mem = [G; N];
    let lo = 1usize;
    let cap0 = %s;
    {
        let mut w: &mut [u8] = &mut mem[lo..lo + cap0];
        %s
        %s
        assert!(w.remaining_mut() == cap0 - need - 1);
    }
    let out: &[u8] = &mem[lo..lo + need + 1];
    let guard_i = any_below(N);
    if guard_i < lo || guard_i >= lo + need + 1 {
        assert!(mem[guard_i] == G);
    }""" % (fixed_cap, put("w"), put2("w"))
    if t == "uninit":
        return """    let mut mem = [G; N];
    let lo = 1usize;
    let cap0 = %s;
    {
        let mu: &mut [MaybeUninit<u8>; N] = unsafe { &mut *(&mut mem as *mut [u8; N] as *mut [MaybeUninit<u8>; N]) };
        let mut w: &mut [MaybeUninit<u8>] = &mut mu[lo..lo + cap0];
        %s
        %s
        assert!(w.remaining_mut() == cap0 - need - 1);
    }
    let out: &[u8] = &mem[lo..lo + need + 1];
    let guard_i = any_below(N);
    if guard_i < lo || guard_i >= lo + need + 1 {
        assert!(mem[guard_i] == G);
    }""" % (fixed_cap, put("w"), put2("w"))
    if t in ("refmut", "boxed"):
        wrap = "let mut w0 = &mut inner; let mut w = Fwd(&mut w0);" if t == "refmut" else "let mut w: Box<&mut [u8]> = Box::new(inner);"
        return """    let mut mem = [G; N];
    let lo = 1usize;
    let cap0 = %s;
    {
        let mut inner: &mut [u8] = &mut mem[lo..lo + cap0];
        %s
        %s
        %s
        assert!(w.remaining_mut() == cap0 - need - 1);
    }
    let out: &[u8] = &mem[lo..lo + need + 1];
    let guard_i = any_below(N);
    if guard_i < lo || guard_i >= lo + need + 1 {
        assert!(mem[guard_i] == G);
    }""" % (fixed_cap, wrap, put("w"), put2("w"))
    if t == "chain":
        unrolled = "\n".join("    if %d < wrote { outbuf[%d] = if %d < in_a { mem[lo + %d] } else { mem2[lo + %d - in_a] }; }" % (k, k, k, k, k) for k in range(W + 1))
        return """    let mut mem = [G; N];
    let mut mem2 = [G; N];
    let lo = 1usize;
    let cap0 = %s;
    let split = any_len(cap0);
    {
        // the two halves are windows of SEPARATE arrays with guard bytes on both sides: a write that runs over the end of the
        // first half (or starts before the second) hits a guard instead of landing in the neighbouring half
        let first: &mut [u8] = &mut mem[lo..lo + split];
        let second: &mut [u8] = &mut mem2[lo..lo + (cap0 - split)];
        let mut w = first.chain_mut(second);
        %s
        %s
        assert!(w.remaining_mut() == cap0 - need - 1);
    }
    let wrote = need + 1;
    let in_a = if wrote < split { wrote } else { split };
    let in_b = wrote - in_a;
    let mut outbuf = [0u8; N];
%s
    let out: &[u8] = &outbuf[..wrote];
    kani::cover!(need < 2 || (split > 0 && split < need), "value straddles the two halves");
    let guard_i = any_below(N);
    if guard_i < lo || guard_i >= lo + in_a {
        assert!(mem[guard_i] == G);
    }
    if guard_i < lo || guard_i >= lo + in_b {
        assert!(mem2[guard_i] == G);
    }""" % (fixed_cap, put("w"), put2("w"), unrolled)
    if t == "limit":
        return """    let mut mem = [G; N];
    let lo = 1usize;
    let cap0 = %s;
    let lim: usize = kani::any();
    kani::assume(lim >= need + 1);
    {
        let inner: &mut [u8] = &mut mem[lo..lo + cap0];
        let mut w = inner.limit(lim);
        %s
        %s
        assert!(bytes::buf::Limit::limit(&w) == lim - need - 1);
        assert!(w.remaining_mut() == core::cmp::min(cap0, lim) - need - 1);
        assert!(w.get_ref().len() == cap0 - need - 1);
    }
    let out: &[u8] = &mem[lo..lo + need + 1];
    kani::cover!(lim == usize::MAX, "limit usize::MAX");
    let guard_i = any_below(N);
    if guard_i < lo || guard_i >= lo + need + 1 {
        assert!(mem[guard_i] == G);
    }""" % (fixed_cap, put("w"), put2("w"))
    if t.startswith("sbm"):
        cuts = {"sbm1": "[0u8; N]", "sbm3": "[2u8; N]", "sbmsym": "kani::any()"}[t]
        return """    let lo = 1usize;
    let cap0 = %s;
    let mut w = SymBufMut::<N> { mem: [G; N], lo, cap: cap0, written: 0, cuts: %s };
    %s
    %s
    assert!(w.remaining_mut() == cap0 - need - 1);
    assert!(w.written == need + 1);
    let mem = w.mem;
    let out: &[u8] = &mem[lo..lo + need + 1];
    let guard_i = any_below(N);
    if guard_i < lo || guard_i >= lo + need + 1 {
        assert!(mem[guard_i] == G);
    }""" % (fixed_cap, cuts, put("w"), put2("w"))
    if t in ("vec_grow", "vec_room"):
        capx = "1" if t == "vec_grow" else "N + 2"
        return """    let mut w: Vec<u8> = Vec::with_capacity(%s);
    w.push(G);
    let lo = 1usize;
    %s
    %s
    assert!(w.len() == 1 + need + 1);
    assert!(w[0] == G);
    let out: &[u8] = &w[lo..];""" % (capx, put("w"), put2("w"))
    if t in ("bm_vec", "bm_arc"):
        rep = "MRep::Vec" if t == "bm_vec" else "MRep::ArcUnique"
        return """    let pre: [u8; 1] = [G];
    let mut w: BytesMut = mk_bm(%s, &pre);
    let lo = 1usize;
    %s
    %s
    assert!(w.len() == 1 + need + 1);
    assert!(w[0] == G);
    let out: &[u8] = &w[lo..];""" % (rep, put("w"), put2("w"))
    raise KeyError(t)


FIXED_TARGETS = ["slice", "uninit", "refmut", "boxed", "chain", "limit", "sbm1", "sbm3", "sbmsym"]
GROW_TARGETS = ["vec_grow", "vec_room", "bm_vec", "bm_arc"]
ROTATE = ["uninit", "boxed", "chain", "limit", "sbm3", "vec_grow", "vec_room", "bm_vec", "bm_arc"]


def classify(name):
    m = re.match(r"^put_([uif])(8|16|32|64|128)(_le|_ne)?$", name)
    if m:
        k, bits, e = m.group(1), int(m.group(2)), (m.group(3) or "_be")[1:]
        if k == "f" and bits not in (32, 64):
            return None
        return {"kind": "fixed", "ty": "%s%d" % (k, bits), "width": bits // 8, "endian": e}
    m = re.match(r"^put_(u?)int(_le|_ne)?$", name)
    if m:
        return {"kind": "var", "signed": m.group(1) == "", "endian": (m.group(2) or "_be")[1:], "ty": "u64" if m.group(1) else "i64"}
    return None


def generate(repo):
    src = open(os.path.join(repo, "src/buf/buf_mut.rs")).read()
    t0 = src.index("pub unsafe trait BufMut")
    t1 = src.index("macro_rules! deref_forward_bufmut")
    trait = src[t0:t1]
    methods = re.findall(r"^\s{4}(?:unsafe\s+)?fn\s+([a-z0-9_]+)\s*(?:<[^>]*>)?\(", trait, re.M)
    fwd = src[t1:src.index("unsafe impl<T: BufMut + ?Sized> BufMut for &mut T")]
    fwd_methods = set(re.findall(r"fn\s+([a-z0-9_]+)\s*(?:<[^>]*>)?\(", fwd))
    inconc = []
    # (deref_forward_bufmut! forwards only part of the trait; the remaining methods run their default bodies on
    # the wrapper, which is still required to be correct and is what the refmut/boxed targets check)
    putters = [m for m in methods if m.startswith("put_") and m not in ("put_slice", "put_bytes")]
    sigs = []
    for pm in putters:
        cc = classify(pm)
        if cc is None:
            continue
        if cc["kind"] == "fixed":
            sigs.append("%s(n: %s)" % (pm, cc["ty"]))
        else:
            sigs.append("%s(n: %s, nbytes: usize)" % (pm, cc["ty"]))
    global HDR_FILLED
    HDR_FILLED = HDR.replace("__FWD_METHODS__", ", ".join(sigs))
    groups = {}
    n_h = 0
    for idx, p in enumerate(putters):
        c = classify(p)
        if c is None:
            inconc.append({"props": ["C11"], "text": "unclassified putter %s in pub unsafe trait BufMut" % p})
            continue
        fixed = c["kind"] == "fixed"
        W = c["width"] if fixed else 8
        gname = ("w%d" % (W * 8)) if fixed else "var"
        out = groups.setdefault(gname, [HDR_FILLED])
        N = W + 4
        unwind = max(W + 3, 5)
        e = c["endian"]
        eff = "le" if e == "ne" else e
        getter = p.replace("put_", "get_", 1)
        if fixed:
            ty = c["ty"]
            vdecl = "let v: %s = kani::any();" % ty
            if ty[0] == "f":
                vdecl = "let v: %s = %s::from_bits(kani::any());" % (ty, ty)
                asint = "(v.to_bits() as u128)"
            else:
                asint = "(v as u128)"
            need = "const W: usize = %d;\n    let need = W;" % W
            put = lambda w: "%s.%s(v);" % (w, p)
            readback = "    let mut rd: &[u8] = &out[..need];\n    let back = rd.%s();\n    assert!(%s);" % (
                getter, ("back.to_bits() == v.to_bits()" if ty[0] == "f" else "back == v"))
        else:
            vdecl = "let v: %s = kani::any();\n    let nb = any_len(8);" % c["ty"]
            asint = "(v as u128)"
            need = "let need = nb;"
            put = lambda w: "%s.%s(v, nb);" % (w, p)
            # read back: the value truncated to nb bytes, sign/zero extended
            if c["signed"]:
                readback = ("    let mut rd: &[u8] = &out[..need];\n    let back = rd.%s(nb);\n"
                            "    let exp = if nb == 0 { 0 } else if nb == 8 { v } else { (v << (64 - 8 * nb)) >> (64 - 8 * nb) };\n"
                            "    assert!(back == exp);") % getter
            else:
                readback = ("    let mut rd: &[u8] = &out[..need];\n    let back = rd.%s(nb);\n"
                            "    let exp = if nb == 0 { 0 } else if nb == 8 { v } else { v & ((1u64 << (8 * nb)) - 1) };\n"
                            "    assert!(back == exp);") % getter
        put2 = lambda w: "%s.put_u8(0x5A);" % w
        ne_guard = "    assert!(cfg!(target_endian = \"little\"));\n" if e == "ne" else ""
        variants = []
        for t in FIXED_TARGETS + GROW_TARGETS:
            if t == "bm_arc" and fixed and W > 1:
                continue  # growth of a shared-form BytesMut inside a put harness exhausts CBMC's memory (undecidable kind() test);
                          # growth of that form is decided by the in-crate arc_reserve_* step harnesses
            if not fixed and t in GROW_TARGETS:
                # nbytes becomes an allocation size in growable targets: concrete per harness
                for nbc in range(0, 9):
                    if t == "bm_arc" and nbc > 1:
                        continue
                    variants.append((t, nbc))
            else:
                variants.append((t, None))
        for t, nbc in variants:
            if t == "sbmsym":
                tier = "quick" if W <= 2 else "thorough"
            elif t in ("slice", "sbm1", "refmut"):
                tier = "quick"
            elif t == "bm_arc":
                tier = "thorough"
            else:
                tier = "quick" if ROTATE[idx % len(ROTATE)] == t else "thorough"
            if nbc is not None and nbc not in (0, 3, 8):
                tier = "thorough"
            name = "c11_%s_%s_fits" % (p, t) + ("" if nbc is None else "_nb%d" % nbc)
            fixed_cap = "need + 2" if not fixed else "W + 2"
            body = "    const N: usize = %d;\n    %s\n    %s\n%s%s\n    // appended bytes equal the reference encoding, in call order\n    assert!(out.len() == need + 1);\n    if need > 0 {\n        let i = any_below(need);\n        assert!(out[i] == %s_byte(%s, need, i));\n    }\n    assert!(out[need] == 0x5A);\n%s\n    end_reached!();" % (
                N, vdecl, need, ne_guard, target_code(t, W, put, put2, fixed_cap), eff, asint, readback)
            if not fixed and nbc is None:
                body = body.replace("    end_reached!();", "    kani::cover!(nb == 0, \"zero width\");\n    kani::cover!(nb == 8, \"full width\");\n    end_reached!();")
            if nbc is not None:
                body = body.replace("let nb = any_len(8);", "let nb = %dusize;" % nbc)
            out.append("// @h props=C11 tier=%s group=putters note=%s_into_%s\n#[kani::proof]\n#[kani::unwind(%d)]\n#[kani::stub(core::slice::index::slice_index_fail, stub_slice_index_fail)]\npub fn %s() {\n%s\n}\n" % (
                tier, p, t, unwind, name, body))
            n_h += 1
        # ---------------------------------------------- does not fit (fixed-size targets)
        for t in ("slice", "uninit", "sbm1", "chain", "limit"):
            tier = "quick" if t in ("slice",) or (t in ("sbm1", "uninit") and idx % 2 == 0) or (t in ("chain", "limit") and idx % 5 == 0) else "thorough"
            name = "c11_%s_%s_nofit" % (p, t)
            if fixed:
                pre = "    const N: usize = %d;\n    const W: usize = %d;\n    %s\n    let need = W;\n    let cap0 = any_len(W - 1);" % (N, W, vdecl.split("\n")[0])
                call = lambda w: "%s.%s(v);" % (w, p)
            else:
                pre = "    const N: usize = %d;\n    %s\n    kani::assume(nb > 0);\n    let need = nb;\n    let cap0 = any_len(7);\n    kani::assume(cap0 < nb);" % (N, vdecl)
                call = lambda w: "%s.%s(v, nb);" % (w, p)
            if t == "slice":
                tgt = "    let mut mem = [G; N];\n    let lo = 1usize;\n    unsafe { observe_guards(mem.as_ptr(), N, 0, 0) };\n    let mut w: &mut [u8] = &mut mem[lo..lo + cap0];\n    end_reached!();\n    %s" % call("w")
            elif t == "uninit":
                tgt = ("    let mut mem = [G; N];\n    let lo = 1usize;\n    unsafe { observe_guards(mem.as_ptr(), N, 0, 0) };\n"
                       "    let mu: &mut [MaybeUninit<u8>; N] = unsafe { &mut *(&mut mem as *mut [u8; N] as *mut [MaybeUninit<u8>; N]) };\n"
                       "    let mut w: &mut [MaybeUninit<u8>] = &mut mu[lo..lo + cap0];\n    end_reached!();\n    %s" % call("w"))
            elif t == "chain":
                tgt = ("    let mut mem = [G; N];\n    let lo = 1usize;\n    unsafe { observe_guards(mem.as_ptr(), N, 0, 0) };\n    let split = any_len(cap0);\n"
                       "    let (first, second) = mem[lo..lo + cap0].split_at_mut(split);\n    let mut w = first.chain_mut(second);\n    end_reached!();\n    %s" % call("w"))
            elif t == "limit":
                tgt = ("    let mut mem = [G; N];\n    let lo = 1usize;\n    unsafe { observe_guards(mem.as_ptr(), N, 0, 0) };\n"
                       "    let inner: &mut [u8] = &mut mem[lo..lo + need + 1];\n    let mut w = inner.limit(cap0);\n    end_reached!();\n    %s" % call("w"))
            else:
                tgt = ("    let lo = 1usize;\n    let mut w = SymBufMut::<N> { mem: [G; N], lo, cap: cap0, written: 0, cuts: [0u8; N] };\n"
                       "    unsafe { observe_guards(w.mem.as_ptr(), N, 0, 0) };\n    end_reached!();\n    %s" % call("w"))
            body = pre + "\n" + tgt + "\n    assert!(false, \"RETURNED: a write that does not fit must panic\");"
            out.append("// @h props=C11,C13 tier=%s group=putters allow=observed.panic_advance must_fail=observed.panic_advance note=%s_does_not_fit_%s\n#[kani::proof]\n#[kani::unwind(%d)]\n#[kani::stub(core::slice::index::slice_index_fail, stub_slice_index_fail)]\n#[kani::stub(bytes::panic_advance, observing_panic_advance)]\npub fn %s() {\n%s\n}\n" % (
                tier, p, t, unwind, name, body))
            n_h += 1
        if not fixed:
            name = "c11_%s_too_wide" % p
            out.append("""// @h props=C11,C13 tier=quick group=putters allow=@PANIC@ must_fail=@PANIC@ note=%s_nbytes>8
#[kani::proof]
#[kani::unwind(12)]
pub fn %s() {
    let mut mem = [G; 12];
    let mut w: &mut [u8] = &mut mem[..];
    let v: %s = kani::any();
    let nb: usize = kani::any();
    kani::assume(nb > 8);
    w.%s(v, nb);
    assert!(false, "RETURNED: nbytes > 8 must panic");
}
""" % (p, name, c["ty"], p))
            n_h += 1
    out = groups.setdefault("w32", [HDR_FILLED])
    out.append("""// @h props=C11 tier=quick flags=witness group=putters
#[kani::proof]
#[kani::unwind(8)]
pub fn c11_witness() {
    let mut mem = [G; 8];
    let v: u32 = kani::any();
    {
        let mut w: &mut [u8] = &mut mem[1..7];
        w.put_u32_le(v);
    }
    let i = any_below(4);
    assert!(mem[1 + i] == le_byte(v as u128, 4, i));
    assert!(false, "VACUITY_WITNESS");
}
""")
    return {"files": {"c11_%s.rs" % k: "\n".join(v) for k, v in groups.items()},
            "summary": {"trait_methods": len(methods), "putters": len(putters), "harnesses": n_h + 1}, "inconclusive": inconc}
