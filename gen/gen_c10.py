"""C10: typed getters.  The method list is scraped from `pub trait Buf` in the working tree; every
get_X / try_get_X pair gets
  * an "enough bytes" harness over SymBuf (symbolic content, symbolic chunking, symbolic pre-advance):
    value == independent reference decoding of the next bytes, cursor advanced by exactly the width,
    try_get == Ok(get) on a copy of the same buffer, no panic;
  * a "shortfall" harness: remaining symbolic in 0..width: try_get == Err{requested, available} with the
    cursor untouched, and get_X must not return (panic_advance is the only allowed failing check);
  * the same two over other implementors / forwarding wrappers (&mut, Box, &[u8], Bytes, BytesMut, Cursor,
    Chain with symbolic cut, Take): all methods over &mut/Box forwarding (quick), other implementors rotate
    in quick and are complete in thorough.
A getter in the trait that the generator cannot classify is reported (inconclusive).
"""
import re, os

HDR = r'''//! generated from `pub trait Buf` of src/buf/buf_impl.rs - do not edit
use crate::symbuf::{FragBuf, StepBuf, SymBuf};
use crate::util::*;
use alloc::boxed::Box;
use bytes::{Buf, BufMut, Bytes, BytesMut, TryGetError};

/// independent reference decoders (shift-and-or, no from_*_bytes; unrolled so that they add no loop
/// to the unwinding bound of the harness)
macro_rules! be_step {
    ($v:ident, $b:ident, $n:ident, $t:ty, $($i:expr),*) => { $( if $i < $n { $v = ($v << 8) | ($b[$i] as $t); } )* };
}
macro_rules! le_step {
    ($v:ident, $b:ident, $n:ident, $t:ty, $($i:expr),*) => { $( if $i < $n { $v |= ($b[$i] as $t) << (8 * $i); } )* };
}
fn ref_uint_be(b: &[u8], n: usize) -> u64 {
    let mut v: u64 = 0;
    be_step!(v, b, n, u64, 0, 1, 2, 3, 4, 5, 6, 7);
    v
}
fn ref_uint_le(b: &[u8], n: usize) -> u64 {
    let mut v: u64 = 0;
    le_step!(v, b, n, u64, 0, 1, 2, 3, 4, 5, 6, 7);
    v
}
fn ref_sext(v: u64, n: usize) -> i64 {
    if n == 0 {
        0
    } else if n >= 8 {
        v as i64
    } else if v & (1u64 << (8 * n - 1)) != 0 {
        (v | (!0u64 << (8 * n))) as i64
    } else {
        v as i64
    }
}
fn ref_u128_be(b: &[u8], n: usize) -> u128 {
    let mut v: u128 = 0;
    be_step!(v, b, n, u128, 0, 1, 2, 3, 4, 5, 6, 7, 8, 9, 10, 11, 12, 13, 14, 15);
    v
}
fn ref_u128_le(b: &[u8], n: usize) -> u128 {
    let mut v: u128 = 0;
    le_step!(v, b, n, u128, 0, 1, 2, 3, 4, 5, 6, 7, 8, 9, 10, 11, 12, 13, 14, 15);
    v
}

pub struct Fwd<'a, B: Buf>(pub &'a mut B);
macro_rules! fwd_get {
    ($($m:ident($($a:ident: $t:ty),*) -> $r:ty),* $(,)?) => { $( pub fn $m(&mut self, $($a: $t),*) -> $r { <B as Buf>::$m(self.0, $($a),*) } )* };
}
impl<'a, B: Buf> Fwd<'a, B> {
    pub fn remaining(&self) -> usize { <B as Buf>::remaining(self.0) }
    pub fn chunk(&self) -> &[u8] { <B as Buf>::chunk(self.0) }
    fwd_get!(__FWD_GETTERS__);
}

/// the next W model bytes of a data array at position p
fn next<const N: usize, const W: usize>(data: &[u8; N], p: usize) -> [u8; W] {
    let mut m = [0u8; W];
    let mut i = 0;
    while i < W {
        if p + i < N {
            m[i] = data[p + i];
        }
        i += 1;
    }
    m
}
'''

# implementor constructors: code that defines `b` (mut, impl Buf) and `b2` (identical copy) from
# data: [u8; N] and logical length len (bytes data[..len]), plus `start` = model position of cursor.
IMPLS = {
    # every way of cutting the remaining bytes into chunks (symbolic chunk length at every position)
    "symbuf": """let mut b = SymBuf::<N> { data, len, pos: 0, cuts: kani::any(), advances: 0 };
    let mut b2 = b;
    let start = 0usize;""",
    # one chunk boundary at a symbolic position (inside, before, behind or at either end of the value)
    # (physically fragmented: each chunk ends where its array ends, so a read past a chunk leaves the object)
    "cut": """let mut b = FragBuf::<N>::new(&data, len, kani::any());
    let mut b2 = b;
    let start = 0usize;""",
    # every byte its own chunk / chunks of three bytes
    "step1": """let mut b = StepBuf::<N, 1> { data, len, pos: 0 };
    let mut b2 = b;
    let start = 0usize;""",
    "step3": """let mut b = StepBuf::<N, 3> { data, len, pos: 0 };
    let mut b2 = b;
    let start = 0usize;""",
    # Fwd forces dispatch through `impl Buf for &mut T` (deref_forward_buf!): plain method syntax on `&mut inner`
    # auto-derefs to the inner type's own impl and never runs the forwarder
    "refmut": """let mut inner = StepBuf::<N, 2> { data, len, pos: 0 };
    let mut inner2 = inner;
    let mut r1 = &mut inner;
    let mut r2 = &mut inner2;
    let mut b = Fwd(&mut r1);
    let mut b2 = Fwd(&mut r2);
    let start = 0usize;""",
    "boxed": """let inner = StepBuf::<N, 2> { data, len, pos: 0 };
    let mut b: Box<StepBuf<N, 2>> = Box::new(inner);
    let mut b2: Box<StepBuf<N, 2>> = Box::new(inner);
    let start = 0usize;""",
    "slice": """let mut b: &[u8] = &data[..len];
    let mut b2: &[u8] = &data[..len];
    let start = 0usize;""",
    "bytes": """let full = mk_bytes(Rep::Shared, &data);
    let mut b = full.slice(..len);
    let mut b2 = b.clone();
    let start = 0usize;""",
    # (b2 is built the same way instead of cloned: BytesMut::clone allocates `len` bytes, and a symbolic allocation size explodes)
    "bytesmut": """let mut b = mk_bm(MRep::VecOff, &data);
    b.truncate(len);
    let mut b2 = mk_bm(MRep::VecOff, &data);
    b2.truncate(len);
    let start = 0usize;""",
    "cursor": """let pre = any_len(1);
    kani::assume(pre <= len);
    let mut b = std::io::Cursor::new(&data[..len]);
    b.set_position(pre as u64);
    let mut b2 = b.clone();
    let start = pre;""",
    # the two halves are separate objects, the first flush with the end of its array
    "chain": """let cut = any_len(N);
    kani::assume(cut <= len);
    let fr = FragBuf::<N>::new(&data, len, cut);
    let (pa, pb) = fr.parts();
    let mut b = pa.chain(pb);
    let mut b2 = pa.chain(pb);
    let start = 0usize;""",
    "take": """let mut b = (&data[..]).take(len);
    let mut b2 = (&data[..]).take(len);
    let start = 0usize;""",
}
STD_ONLY = {"cursor"}
ROTATE = ["slice", "bytes", "bytesmut", "cursor", "chain", "take"]


def classify(name):
    """-> dict(kind, ty, width, endian) or None"""
    m = re.match(r"^get_([uif])(8|16|32|64|128)(_le|_ne)?$", name)
    if m:
        k, bits, e = m.group(1), int(m.group(2)), (m.group(3) or "_be")[1:]
        if k == "f" and bits not in (32, 64):
            return None
        return {"kind": "fixed", "ty": "%s%d" % (k, bits), "width": bits // 8, "endian": e}
    m = re.match(r"^get_(u?)int(_le|_ne)?$", name)
    if m:
        return {"kind": "var", "signed": m.group(1) == "", "endian": (m.group(2) or "_be")[1:], "ty": "u64" if m.group(1) else "i64"}
    return None


def ref_expr(c):
    """expression of the expected value from model bytes `m` (array of width W) / nbytes `nb`"""
    e = c["endian"]
    if e == "ne":
        e = "le"  # the only compiled target is little endian (stated assumption); cfg!(target_endian) is checked by the harness
    if c["kind"] == "fixed":
        w = c["width"]
        ty = c["ty"]
        if w == 16:
            raw = "ref_u128_%s(&m, 16)" % e
            return raw if ty == "u128" else "(%s as i128)" % raw
        raw = "ref_uint_%s(&m, %d)" % (e, w)
        if ty[0] == "u":
            return "(%s as %s)" % (raw, ty)
        if ty[0] == "i":
            return "(ref_sext(%s, %d) as %s)" % (raw, w, ty)
        if ty == "f32":
            return "f32::from_bits(%s as u32)" % raw
        return "f64::from_bits(%s)" % raw
    raw = "ref_uint_%s(&m, nb)" % e
    return "ref_sext(%s, nb)" % raw if c["signed"] else raw


def eqbits(c, a, b):
    if c["ty"] in ("f32", "f64"):
        return "%s.to_bits() == %s.to_bits()" % (a, b)
    return "%s == %s" % (a, b)


def generate(repo):
    src = open(os.path.join(repo, "src/buf/buf_impl.rs")).read()
    t0 = src.index("pub trait Buf")
    t1 = src.index("macro_rules! deref_forward_buf")
    trait = src[t0:t1]
    methods = re.findall(r"^\s{4}fn\s+([a-z0-9_]+)\s*(?:<[^>]*>)?\(", trait, re.M)
    fwd = src[t1:src.index("impl<T: Buf + ?Sized> Buf for &mut T")]
    fwd_methods = set(re.findall(r"fn\s+([a-z0-9_]+)\s*(?:<[^>]*>)?\(", fwd))
    getters = [m for m in methods if m.startswith("get_")]
    sigs = []
    for g_ in getters:
        cc = classify(g_)
        if cc is None:
            continue
        ty = cc["ty"]
        if cc["kind"] == "fixed":
            sigs.append("%s() -> %s" % (g_, ty))
            sigs.append("try_%s() -> Result<%s, TryGetError>" % (g_, ty))
        else:
            sigs.append("%s(nbytes: usize) -> %s" % (g_, ty))
            sigs.append("try_%s(nbytes: usize) -> Result<%s, TryGetError>" % (g_, ty))
    global HDR_FILLED
    HDR_FILLED = HDR.replace("__FWD_GETTERS__", ", ".join(sigs))
    inconc = []
    groups = {}
    out = None
    n_h = 0
    for g in methods:
        if (g.startswith("get_") or g.startswith("try_get_")) and g not in fwd_methods:
            inconc.append({"props": ["C10", "C09"], "text": "trait method %s is not forwarded by deref_forward_buf!" % g})
    for idx, g in enumerate(getters):
        c = classify(g)
        tg = "try_" + g
        if c is None:
            inconc.append({"props": ["C10"], "text": "unclassified getter %s in pub trait Buf" % g})
            continue
        if tg not in methods:
            inconc.append({"props": ["C10"], "text": "getter %s has no try_ twin" % g})
            continue
        fixed = c["kind"] == "fixed"
        W = c["width"] if fixed else 8
        gname = ("w%d" % (W * 8)) if fixed else "var"
        out = groups.setdefault(gname, [HDR_FILLED])
        N = W + 1
        unwind = max(W + 2, 4)
        impls = ["symbuf", "cut", "step1", "step3", "refmut", "boxed"] + ROTATE
        for im in impls:
            if im == "symbuf":
                tier = "quick" if W <= 4 else "thorough"
            elif im == "cut":
                tier = "quick" if W <= 8 else "thorough"
            elif im in ("step1", "refmut"):
                tier = "quick"
            elif im in ("step3", "boxed"):
                tier = "quick" if idx % 2 == 0 else "thorough"
            else:
                tier = "quick" if ROTATE[idx % len(ROTATE)] == im else "thorough"
            flags = ""
            cfgattr = "#[cfg(feature = \"std\")]\n" if im in STD_ONLY else ""
            ne_guard = "    assert!(cfg!(target_endian = \"little\"));\n" if c["endian"] == "ne" else ""
            # ------------------------------------------------ enough bytes
            name = "c10_%s_%s_ok" % (g, im)
            if fixed:
                body = """    const N: usize = %d;
    const W: usize = %d;
    let data: [u8; N] = kani::any();
    // exactly the bytes of the value, or one spare byte behind it (the boundary of the "enough bytes" test)
    let len = W + any_len(1);
    %s
    kani::assume(len - start >= W);
    let rem = b.remaining();
    assert!(rem == len - start);
    let m: [u8; W] = next::<N, W>(&data, start);
    let exp: %s = %s;
%s    let got = b.%s();
    assert!(%s);
    assert!(b.remaining() == rem - W);
    let r = b2.%s();
    match r {
        Ok(v) => assert!(%s),
        Err(_) => assert!(false, "try_get failed although enough bytes remain"),
    }
    assert!(b2.remaining() == rem - W);
    // the cursor really sits behind the value: the next byte (if any) is the model's next byte
    if rem > W {
        assert!(b.chunk()[0] == data[start + W]);
    }
    kani::cover!(rem > W, "value followed by a spare byte");
    kani::cover!(rem == W, "exactly the value remains");
    end_reached!();""" % (N, W, IMPLS[im], c["ty"], ref_expr(c), ne_guard, g, eqbits(c, "got", "exp"), tg, eqbits(c, "v", "exp"))
            else:
                body = """    const N: usize = %d;
    const W: usize = 8;
    let data: [u8; N] = kani::any();
    let nb = any_len(8);
    // exactly nb bytes, or one spare byte behind them
    let len = nb + any_len(1);
    %s
    kani::assume(len - start >= nb);
    let rem = b.remaining();
    let m: [u8; W] = next::<N, W>(&data, start);
    let exp: %s = %s;
%s    let got = b.%s(nb);
    assert!(got == exp);
    assert!(b.remaining() == rem - nb);
    let r = b2.%s(nb);
    match r {
        Ok(v) => assert!(v == exp),
        Err(_) => assert!(false, "try_get failed although enough bytes remain"),
    }
    assert!(b2.remaining() == rem - nb);
    if rem > nb {
        assert!(b.chunk()[0] == data[start + nb]);
    }
    kani::cover!(nb == 0, "zero width");
    kani::cover!(nb == 8, "full width");
    kani::cover!(nb == 8 && rem == nb, "exactly nb bytes remain");
    kani::cover!(nb == 3 && m[%s] >= 0x80, "sign bit set in a 3-byte value");
    end_reached!();""" % (N, IMPLS[im], c["ty"], ref_expr(c), ne_guard, g, tg, "0" if c["endian"] == "be" else "2")
            out.append("%s// @h props=C10 tier=%s group=getters note=%s/%s_over_%s\n#[kani::proof]\n#[kani::unwind(%d)]\n#[kani::stub(core::slice::index::slice_index_fail, stub_slice_index_fail)]\npub fn %s() {\n%s\n}\n" % (
                cfgattr, tier, g, tg, im, unwind, name, body))
            n_h += 1
            # ------------------------------------------------ shortfall
            if im in ("cut", "step3"):
                continue  # the shortfall check precedes all chunk handling
            if im == "symbuf":
                tier = "quick" if W <= 4 else "thorough"
            name = "c10_%s_%s_short" % (g, im)
            if fixed:
                lenexpr = "any_len(N)" if im in ("symbuf", "step1") else "W - 1"
                pre = """    const N: usize = %d;
    const W: usize = %d;
    let data: [u8; N] = kani::any();
    let len = %s;
    %s
    kani::assume(len - start < W);
    let need = W;""" % (N, W, lenexpr, IMPLS[im])
                call_try = "b2.%s()" % tg
                call_get = "b.%s()" % g
            else:
                pre = """    const N: usize = %d;
    let data: [u8; N] = kani::any();
    let len = any_len(N);
    let nb = any_len(8);
    %s
    kani::assume(len - start < nb);
    let need = nb;""" % (N, IMPLS[im])
                call_try = "b2.%s(nb)" % tg
                call_get = "b.%s(nb)" % g
            body = pre + """
    let rem = b2.remaining();
    let before = b2.chunk().as_ptr();
    let before_len = b2.chunk().len();
    match %s {
        Ok(_) => assert!(false, "try_get succeeded without enough bytes"),
        Err(e) => assert!(e == TryGetError { requested: need, available: rem }),
    }
    assert!(b2.remaining() == rem);
    assert!(b2.chunk().as_ptr() == before && b2.chunk().len() == before_len);
    kani::cover!(rem + 1 == need, "one byte short");
    end_reached!();
    let _ = %s;
    assert!(false, "RETURNED: get on a short buffer must panic");""" % (call_try, call_get)
            out.append("%s// @h props=C10 tier=%s group=getters allow=@PANIC@ must_fail=@PANIC@ note=%s/%s_over_%s_shortfall\n#[kani::proof]\n#[kani::unwind(%d)]\n#[kani::stub(core::slice::index::slice_index_fail, stub_slice_index_fail)]\npub fn %s() {\n%s\n}\n" % (
                cfgattr, tier, g, tg, im, unwind, name, body))
            n_h += 1
        if not fixed:
            # nbytes > 8: documented panic for both families
            for which, call in (("get", "b.%s(nb)" % g), ("try", "b.%s(nb)" % tg)):
                name = "c10_%s_%s_too_wide" % (g, which)
                out.append("""// @h props=C10,C13 tier=quick group=getters allow=@PANIC@ must_fail=@PANIC@ note=%s_nbytes>8
#[kani::proof]
#[kani::unwind(14)]
pub fn %s() {
    const N: usize = 10;
    let mut b = SymBuf::<N>::any();
    let nb: usize = kani::any();
    kani::assume(nb > 8);
    let _ = %s;
    assert!(false, "RETURNED: nbytes > 8 must panic");
}
""" % (g, name, call))
                n_h += 1
    out = groups.setdefault("w32", [HDR_FILLED])
    out.append("""// @h props=C10 tier=quick flags=witness group=getters
#[kani::proof]
#[kani::unwind(12)]
pub fn c10_witness() {
    const N: usize = 6;
    let mut b = SymBuf::<N>::any();
    kani::assume(b.remaining() >= 4);
    let m = next::<N, 4>(&b.data, 0);
    let v = b.get_u32_le();
    assert!(v == ref_uint_le(&m, 4) as u32);
    assert!(false, "VACUITY_WITNESS");
}
""")
    return {"files": {"c10_%s.rs" % k: "\n".join(v) for k, v in groups.items()}, "summary": {"trait_methods": len(methods), "getters": len(getters), "harnesses": n_h + 1},
            "inconclusive": inconc}
