"""Stated bounds / outside-the-claim text per property (copied into every evidence file)."""

_STEP = ("in-crate step harnesses: allocation 4 bytes (Bytes states) / 8 bytes (BytesMut states) in the quick tier and additionally 8 / 16 bytes "
         "in the thorough tier (flavour incrate-big), symbolic contents, view (off,len[,cap]) and "
         "reference count in 1..=usize::MAX/2, one operation per harness, arguments symbolic (request sizes over all of usize); unwind 6/10 with "
         "unwinding assertions; F-SEQ: public-API histories of 3-4 concrete operation kinds with symbolic arguments over a 4-byte buffer, <= 3 live handles")
_STEP_OUT = ("buffers larger than 8 bytes (CBMC cannot decide symbolic offsets into objects > 64 bytes; allocation sizes must be concrete), more than "
             "two real handles per harness (further handles are abstracted to the reference count and 'bytes outside my region unchanged'), "
             "the paper induction step from single operations to arbitrary histories, 32-bit / big-endian targets, allocation failure")

BOUNDS = {
    "C01": {"bounds": _STEP, "outside": _STEP_OUT, "assumptions": ["ghost handles = reference count + unchanged bytes outside the target's region"]},
    "C02": {"bounds": _STEP + "; plus the cursor/getter/putter/out-of-contract families (see C09-C13) whose CBMC memory-safety checks all count here",
            "outside": _STEP_OUT + "; uninitialised-memory reads and provenance-level UB (not modelled by CBMC)", "assumptions": []},
    "C03": {"bounds": _STEP + "; E2 CFG facts of Bytes::from_owner (unbounded: read from the MIR)",
            "outside": _STEP_OUT + "; leaks on unwinding paths other than the from_owner/as_ref edge (Kani has no unwinding)",
            "assumptions": ["owner type instantiated with an instrumented [u8;4] struct"]},
    "C04": {"bounds": _STEP + "; reserve growth requests concrete (3, 9); capacity classes >= 1 KiB only via a symbolic original_capacity_repr field",
            "outside": _STEP_OUT, "assumptions": ["symbolic original_capacity_repr over-approximates the reachable states of the allocate-new-buffer branch"]},
    "C05": {"bounds": "E1: stale-snapshot promotion race from an arbitrary unpromoted 4-byte state, even and odd address; E3: 2 threads (3 in thorough) x "
                      "<= 4 operations from {clone, read, drop, into_vec, into_mut, is_unique}, 5 representations + promotion through a shared &Bytes, "
                      "<= ~45 events per program, 8-bit counter values",
            "outside": "programs beyond these bounds; sampled schedules of randomized programs on real threads (sampling belongs to another technique); "
                       "BytesMut reserve/try_reclaim/unsplit in the concurrent alphabet (their uniqueness test is Shared::is_unique, whose skeleton is "
                       "covered through the frozen representation); SC atomics (unused by the crate)",
            "assumptions": ["non-atomic work is abstracted to READ/WRITE/FREE/TAKE events by the E2 model table (listed under coverage.engines[].models)"]},
    "C06": {"bounds": "as C05 part 2 (E3)", "outside": "as C05; consume ordering, mixed-size accesses, compiler transformations outside RC11",
            "assumptions": ["RC11 fragment without SC accesses; happens-before = (po u sw)+ with release sequences"]},
    "C07": {"bounds": _STEP, "outside": _STEP_OUT + "; the address clause for EMPTY split results (without_provenance pointers are not representable in CBMC's "
                                                   "object/offset pointer encoding)", "assumptions": []},
    "C08": {"bounds": _STEP, "outside": _STEP_OUT, "assumptions": []},
    "C09": {"bounds": "sequences <= 4 bytes per leaf buffer (<= 8 per nesting), symbolic chunking at every position (SymBuf), <= 2 cursor operations per "
                      "harness, chunks_vectored destinations of 0..=3 slots, Take limits over all of usize, Cursor positions over all of u64, VecDeque in "
                      "three concrete ring shapes (capacity 4); unwind 6-8",
            "outside": "longer sequences, more than 3 IoSlice slots, induction over nesting depth (paper argument; depth 3/4 instantiated), VecDeque internals beyond 4 elements",
            "assumptions": ["every lawful deterministic Buf is observationally one SymBuf"]},
    "C10": {"bounds": "value width or width + 1 bytes per buffer (exact fit and one spare byte); all chunkings for widths <= 4 (quick) / <= 16 (thorough), one symbolic cut + 1-byte and 3-byte chunks "
                      "for 8/16-byte values; nbytes symbolic 0..=8; shortfall symbolic; unwind width+2",
            "outside": "big-endian targets (native-endian methods are checked on the little-endian build only)", "assumptions": []},
    "C11": {"bounds": "windows of width+4 bytes with guard bytes (Chain: two separate guard arrays), symbolic split / limit / chunking; growable targets with concrete nbytes (0,3,8 quick; 0..=8 thorough)",
            "outside": "windows > 20 bytes, Vec/BytesMut growth beyond one reallocation", "assumptions": ["bytes::panic_advance replaced by an observer stub in the does-not-fit harnesses"]},
    "C12": {"bounds": "as C09 for the Buf side; BufMut side: 8-byte guard arrays, symbolic limit over all of usize, symbolic split, sources <= 3 bytes",
            "outside": "std::io default methods (read_to_end, read_line, write_all ...)", "assumptions": []},
    "C13": {"bounds": "arguments symbolic over the entire out-of-contract region of usize on the step states, debug assertions on and off for the in-crate families; E2 path queries are unbounded CFG facts",
            "outside": "execution after unwinding (Kani: panic = abort): 'state after catch_unwind' is replaced by 'the panic is the first effect' (E2) and 'the call does not return'",
            "assumptions": []},
    "C14": {"bounds": "both operands symbolic, lengths 0..=3, all 256 byte values; str/String operands ASCII; aliasing views of one 4-byte buffer for Bytes/Bytes; unwind 6 (10 for Hash)",
            "outside": "operands longer than 3 bytes, non-ASCII str operands", "assumptions": []},
    "C15": {"bounds": "Debug: ALL byte strings of length 0..=3; hex: 1-2 symbolic bytes, plus one concrete 66-byte buffer (unwind 69) whose output pieces are each checked at a symbolic position; serde: <= 3 symbolic bytes, concrete size hints; unwind 26",
            "outside": "longer strings (per-byte independence of the formatter loop is a stated argument; for hex, block-wise behaviour beyond 66 bytes), real serde data formats", "assumptions": []},
    "C16": {"bounds": "the bounds of the re-run families; ptr_map twin for addresses < 2^47", "outside": "release-profile execution (Kani forces overflow checks on), 32-bit targets",
            "assumptions": ["a build differs from the modelled dev build only by removed overflow checks / debug_asserts (all proved) and cfg!(debug_assertions) in vptr"]},
    "C17": {"bounds": "4 iterations of every consumer loop (no unwinding assertions: a liar may loop a consumer forever), remaining() lies in 0..=12 or usize::MAX, chunks = any sub-slice of an 8-byte array",
            "outside": "leak-freedom on panicking paths, lies of unsafe-trait (BufMut) implementors", "assumptions": ["--prove-safety-only: panics and wrong results are allowed by the property"]},
    "C18": {"bounds": "allocation of 8 bytes, one round from the class R(C) with symbolic n, k, offset and form; symbolic capacity class 1..=7 for the replacement buffer",
            "outside": "retention windows > 0, the literal 10^3..10^6-round histories (replaced by the induction), consumption by split+freeze inside one harness (decided by arc_freeze + the round without freeze); Bytes round trips: concrete shapes of the inline form (vec_roundtrip_*), arbitrary states for the conversion steps",
            "assumptions": []},
}
