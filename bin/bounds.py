"""Stated bounds / outside-the-claim text per property (copied into every evidence file)."""
BOUNDS = {}
