#!/bin/bash
# screen_seed.sh <seed dir name> <PROP> [extra check args]: run a check against a scratch copy of /repo with a seeded patch applied
# (VERIF_REPO mode: /repo, /verif/evidence and the build caches of the real runs are not touched).  Used while an evidence run is active;
# the sanctioned apply/run/undo procedure on /repo itself is bin/run_seed.sh.
s=/verif/seeded/$1; p=$2; shift 2
t=/tmp/scr_$(basename $s)_$p
rm -rf $t; mkdir -p $t
rsync -a --exclude target --exclude .git /repo/ $t/
( cd $t && patch -p1 -s < $s/patch.diff ) || { rm -rf $t; exit 3; }
cd /verif
VERIF_REPO=$t python3 bin/check $p --tier quick "$@"
rc=$?
alt=$(python3 -c "import hashlib,os;print('/verif/.work/alt_'+hashlib.sha1(os.path.realpath('$t').encode()).hexdigest()[:8])")
[ -n "$KEEP" ] || rm -rf $t $alt/tw $alt/ext
echo "screen_seed $(basename $s) $p exit=$rc"
exit $rc
