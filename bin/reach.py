#!/usr/bin/env python3
"""reach.py: which functions of /repo/src are reached by at least one harness?  Reads the CBMC check lists of the last runs
(.work/logs/*/*.log): a source line counts as reached when some check located on it has a status other than UNREACHABLE.
Prints the crate functions (by `fn` item) that contain checks but none reached, and those never mentioned at all."""
import os, re, sys, glob, collections
logs = glob.glob("/verif/.work/logs/*/*.log")
reached = collections.defaultdict(set); seen = collections.defaultdict(set)
pat = re.compile(r"Location: (?:(?:\.\./)+repo/|/repo/)?(src/[\w/]+\.rs):(\d+):\d+ in function (.+)$")
names = collections.defaultdict(set)
for lf in logs:
    st = None
    for l in open(lf, errors="replace"):
        l = l.strip()
        if l.startswith("- Status:"):
            st = l.split(":", 1)[1].strip()
        elif l.startswith("- Location:"):
            m = pat.search(l)
            if m and st:
                f, n = m.group(1), int(m.group(2))
                if not f.startswith("src/buf") and not f.startswith("src/fmt") and not os.path.exists("/repo/" + f):
                    continue
                if os.path.exists("/repo/" + f):
                    seen[f].add(n)
                    if st != "UNREACHABLE":
                        reached[f].add(n)
                        fn = re.sub(r"(::\{closure#\d+\})+$", "", m.group(3).strip())
                        fn = re.sub(r"::<[^>]*>$", "", fn)
                        names[f].add(fn.split("::")[-1])
# fn spans
out = []
for f in sorted(set(list(seen) + [os.path.relpath(p, "/repo") for p in glob.glob("/repo/src/**/*.rs", recursive=True)])):
    src = open("/repo/" + f).read().split("\n")
    fns = []
    for i, l in enumerate(src, 1):
        m = re.match(r"\s*(?:pub(?:\([^)]*\))?\s+)?(?:const\s+)?(?:unsafe\s+)?fn\s+(\w+)", l)
        if m:
            fns.append((i, m.group(1)))
    fns.append((len(src) + 1, None))
    for (a, name), (b, _) in zip(fns, fns[1:]):
        if name is None:
            continue
        body = range(a, b)
        s = [n for n in seen[f] if n in body]
        r = [n for n in reached[f] if n in body]
        nonblank = sum(1 for n in body if src[n - 1].strip() and not src[n - 1].strip().startswith("//"))
        if not r and name not in names[f]:
            out.append((f, a, name, "checks present, none reachable" if s else "no CBMC check located here", nonblank))
for o in out:
    print("%-26s %5d  %-28s %s (%d lines)" % o)
