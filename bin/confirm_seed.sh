#!/bin/bash
# confirm_seed.sh <dir with patch.diff + seed_demo.rs> : confirms a seeded change in a scratch worktree of /repo
# (demo passes without the patch, whole suite passes with it, demo fails with it).  Prints CONFIRMED/REJECTED.
d=$(readlink -f "$1"); name=$(basename "$d"); wt=/tmp/cs_$name
git -C /repo worktree remove --force $wt 2>/dev/null; rm -rf $wt
git -C /repo worktree add -q --detach $wt HEAD || exit 3
export CARGO_NET_OFFLINE=true
cd $wt
demo=$(ls $d | grep -E '\.rs$' | head -1)
cp $d/$demo tests/seed_demo.rs
r1=$(cargo test --offline --test seed_demo 2>&1 | grep -E "^test result" | tail -1)
git apply $d/patch.diff || { echo "REJECTED $name: patch does not apply"; git -C /repo worktree remove --force $wt; exit 1; }
mv tests/seed_demo.rs /tmp/cs_${name}_demo.rs
suite=$(cargo test --offline --workspace --no-fail-fast 2>&1 | grep -E "^test result|warning: unused|^error" )
nfail=$(echo "$suite" | grep -cE "FAILED|^error")
mv /tmp/cs_${name}_demo.rs tests/seed_demo.rs
r2=$(cargo test --offline --test seed_demo 2>&1 | grep -E "^test result|error\[|signal: |process didn't exit successfully" | tail -1 | sed 's/signal: /FAILED (crashed) signal: /; s/process didn.t exit successfully/FAILED (crashed)/')
cd /; git -C /repo worktree remove --force $wt
echo "without patch: $r1"; echo "suite with patch: failing binaries=$nfail"; echo "with patch: $r2"
if echo "$r1" | grep -q "ok\." && [ "$nfail" = 0 ] && echo "$r2" | grep -q FAILED; then echo "CONFIRMED $name"; else echo "REJECTED $name"; fi
