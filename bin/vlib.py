#!/usr/bin/env python3
"""Shared driver for the Kani/CBMC engine (E1).

Harness annotation (a comment line directly above `#[kani::proof]`):

    // @h props=C01,C07 tier=quick flags=leak,safety allow=<regex>|<regex> must_fail=<regex> group=<family>

  props      properties this harness serves
  tier       quick | thorough (thorough harnesses are only run by thorough_cmd)
  flags      leak          add CBMC --memory-leak-check
             safety        --prove-safety-only (separate build flavour)
             nounwind      --no-unwinding-checks (lying buffers may loop forever)
             nodebug       build with -C debug-assertions=off (separate flavour)
             nostd / extra feature-set flavours of the external crate
             witness       vacuity witness: the harness MUST fail (final assert(false))
  allow      regexes (on "description @ function") of checks that are allowed to FAIL
             (contract-panic sites in out-of-contract harnesses)
  must_fail  regexes of checks that must FAIL
  nocover    regexes of cover names allowed to be unsatisfied (none by default)

Verdict per harness: PASS / FAIL(list of offending checks) / INCONCLUSIVE(reason).
"""
import os, re, sys, json, time, subprocess, shutil, hashlib, fcntl, tempfile
from concurrent.futures import ThreadPoolExecutor

VERIF = os.path.dirname(os.path.dirname(os.path.abspath(__file__)))
REPO = os.environ.get("VERIF_REPO", "/repo")
WORK = os.path.join(VERIF, ".work")
EXT = os.path.join(VERIF, "kani", "ext")
ALT = os.path.realpath(REPO) != "/repo"
if ALT:
    # VERIF_REPO=<scratch copy of tokio-rs/bytes>: screening run against another tree (seeded changes) that leaves /repo, the evidence
    # files and the build caches of the real run untouched: own work dir, own copy of the harness crate whose path dependency points there
    REPO = os.path.realpath(REPO)
    WORK = os.path.join(VERIF, ".work", "alt_" + hashlib.sha1(REPO.encode()).hexdigest()[:8])
    _src = EXT
    EXT = os.path.join(WORK, "ext")
    os.makedirs(WORK, exist_ok=True)
    if os.path.exists(EXT):
        shutil.rmtree(EXT)
    shutil.copytree(_src, EXT, ignore=shutil.ignore_patterns("target", "gen"))
    _ct = open(os.path.join(EXT, "Cargo.toml")).read().replace('path = "/repo"', 'path = "%s"' % REPO)
    open(os.path.join(EXT, "Cargo.toml"), "w").write(_ct)
    shutil.copy(os.path.join(REPO, "Cargo.lock"), os.path.join(EXT, "Cargo.lock")) if not os.path.exists(os.path.join(EXT, "Cargo.lock")) else None
INCRATE = os.path.join(VERIF, "kani", "incrate")
BASE_RUSTFLAGS = "--cfg miri --cfg tokio_rs_bytes_verif"
ZFLAGS = ["-Z", "unstable-options", "-Z", "stubbing", "-Z", "mem-predicates"]
NCPU = int(os.environ.get("VERIF_JOBS", "14"))

INCRATE_MODS = {  # file in kani/incrate -> module path inside the bytes crate
    "bytes.rs": "bytes::verif_incrate",
    "bytes_mut.rs": "bytes_mut::verif_incrate",
    "buf_impl.rs": "buf::buf_impl::verif_incrate",
}


def log(*a):
    print(*a, flush=True)


# --------------------------------------------------------------------------- discovery
class CleanPanic:
    """allow=@PANIC@ / must_fail=@PANIC@ : the failing check is a CLEAN, PROFILE-INDEPENDENT PANIC raised by the code under test, wherever it
    sits -- an assert!/panic!/expect in any function of the crate, or one of std's panic helpers the crate reaches through safe code
    (Option::expect, assert_eq!, slice indexing, Vec's capacity overflow).  Which function hosts the assertion is not part of any
    property (moving an assert into a helper is a benign refactor).  NOT a clean panic: arithmetic-overflow checks ("attempt to ..":
    they vanish in release builds), the crate's debug assertions ("internal: .."; the out-of-contract families are also run with
    -C debug-assertions=off), anything located in harness code, memory-safety checks (their ids are not of class `assertion`)."""
    pattern = "@PANIC@"
    CRATE_FILE = re.compile(r"(^|/)src/(bytes|bytes_mut|lib|serde|buf/[a-z_]+|fmt/[a-z_]+)\.rs:\d+")
    STD_FN = re.compile(r" in function (core::option::expect_failed|core::result::unwrap_failed|core::panicking::assert_failed(_inner)?|"
                        r"core::panicking::panic_bounds_check|core::slice::index::slice_index_fail|core::slice::index::slice_\w+_fail|"
                        r"alloc::raw_vec::capacity_overflow|alloc::raw_vec::handle_error|core::slice::<impl \[T\]>::copy_from_slice::len_mismatch_fail)")
    NOT_DESC = re.compile(r"^attempt to |RETURNED|VACUITY|^internal:|unwinding assertion|unreachable|^observed")

    def search(self, key, check=None):
        desc, _, loc = key.partition(" @ ")
        if check is not None and ".assertion." not in check["id"]:
            return None
        if self.NOT_DESC.search(desc):
            return None
        if self.STD_FN.search(loc):
            return True
        if "verif_incrate" in loc or "/verif/" in loc:
            return None
        if self.CRATE_FILE.search(loc.split(" in function ")[0]):
            return True
        return None


def _search(pat, key, check):
    return pat.search(key, check) if isinstance(pat, CleanPanic) else pat.search(key)


class Harness:
    def __init__(self, name, where, meta, unwind, src_file, line):
        self.name = name          # full kani harness path
        self.where = where        # 'ext' | 'incrate'
        self.props = meta.get("props", "").split(",") if meta.get("props") else []
        self.tier = meta.get("tier", "quick")
        self.flags = set(f for f in meta.get("flags", "").split(",") if f)
        self.allow = [CleanPanic() if meta["allow"] == "@PANIC@" else re.compile(meta["allow"])] if meta.get("allow") else []
        self.must_fail = [CleanPanic() if meta["must_fail"] == "@PANIC@" else re.compile(meta["must_fail"])] if meta.get("must_fail") else []
        self.nocover = [re.compile(meta["nocover"])] if meta.get("nocover") else []
        self.group = meta.get("group", "")
        self.note = meta.get("note", "")
        self.unwind = unwind
        self.src_file = src_file
        self.line = line
        self.timeout = int(meta.get("timeout", "0")) or None

    @property
    def flavour(self):
        if self.where == "incrate":
            f = "incrate"
            if "nodebug" in self.flags:
                f += "-nodebug"
            if "nomiri" in self.flags:
                f += "-nomiri"
            if "big" in self.flags:
                f += "-big"
            return f
        f = "ext"
        if "nostd" in self.flags:
            f += "-nostd"
        elif "extra" in self.flags:
            f += "-extra"
        if "nodebug" in self.flags:
            f += "-nodebug"
        if "safety" in self.flags:
            f += "-safety"
        return f


REG = re.compile(r"^\s*//\s*@reg\s+(.*)$")
ANN = re.compile(r"^\s*//\s*@h\s+(.*)$")
FN = re.compile(r"^\s*(?:pub\s+)?fn\s+([A-Za-z0-9_]+)\s*\(")
MACRO = re.compile(r"^\s*[a-z_0-9]+!\(\s*([A-Za-z0-9_]+)\s*,")
UNW = re.compile(r"kani::unwind\((\d+)\)")


def parse_meta(s):
    meta = {}
    # key=value tokens; values may not contain spaces (regexes use \s or . instead)
    for tok in s.split():
        if "=" in tok:
            k, v = tok.split("=", 1)
            meta[k] = v
    return meta


def scan_file(path, modpath, where):
    out = []
    lines = open(path).read().split("\n")
    i = 0
    while i < len(lines):
        rg = REG.match(lines[i])
        if rg:
            meta = parse_meta(rg.group(1))
            out.append(Harness(modpath + "::" + meta["name"], where, meta, None, path, i + 1))
            i += 1
            continue
        m = ANN.match(lines[i])
        if m:
            meta = parse_meta(m.group(1))
            unwind = None
            j = i + 1
            is_proof = False
            while j < len(lines) and j < i + 12:
                if "#[kani::proof" in lines[j]:
                    is_proof = True
                u = UNW.search(lines[j])
                if u:
                    unwind = int(u.group(1))
                f = FN.match(lines[j])
                if f:
                    wrapped = any("counting!" in lines[k] for k in range(max(0, i - 2), i))
                    if is_proof or wrapped:
                        out.append(Harness(modpath + "::" + f.group(1), where, meta, unwind or (10 if wrapped else None), path, j + 1))
                    break
                mac = MACRO.match(lines[j])
                if mac:
                    # harness defined through a local macro: `some_macro!(harness_name, ...)`
                    out.append(Harness(modpath + "::" + mac.group(1), where, meta, unwind, path, j + 1))
                    break
                j += 1
            i = j
        i += 1
    return out


def discover():
    hs = []
    src = os.path.join(EXT, "src")
    for root, _, files in os.walk(src):
        for fn in sorted(files):
            if not fn.endswith(".rs") or fn == "lib.rs":
                continue
            p = os.path.join(root, fn)
            rel = os.path.relpath(p, src)[:-3]
            parts = rel.split(os.sep)
            if parts[-1] == "mod":
                parts = parts[:-1]
            hs += scan_file(p, "::".join(parts), "ext")
    for fn, mod in INCRATE_MODS.items():
        p = os.path.join(INCRATE, fn)
        if os.path.exists(p):
            hs += scan_file(p, mod, "incrate")
    names = {}
    for h in hs:
        if h.name in names:
            raise SystemExit("duplicate harness name " + h.name)
        names[h.name] = h
    return hs


# --------------------------------------------------------------------------- build flavours
def flavour_cfg(fl):
    """-> (cwd, rustflags, cargo feature args, extra kani args)"""
    rf = BASE_RUSTFLAGS
    feat = []
    extra = []
    if fl.startswith("incrate"):
        cwd = REPO
        feat = []
    else:
        cwd = EXT
        if "-nostd" in fl:
            feat = ["--no-default-features"]
        elif "-extra" in fl:
            feat = ["--features", "extra"]
    if "-nodebug" in fl:
        rf += " -C debug-assertions=off"
    if "-nomiri" in fl:
        rf = rf.replace("--cfg miri ", "")
    if "-big" in fl:
        rf += " --cfg verif_big"   # in-crate step harnesses: allocation 6 (Bytes) / 12 (BytesMut) bytes instead of 4 / 8
    if "-safety" in fl:
        extra = ["--prove-safety-only"]
    return cwd, rf, feat, extra


def env_for(rf):
    e = dict(os.environ)
    e["RUSTFLAGS"] = rf
    e["CARGO_NET_OFFLINE"] = "true"
    e.pop("CARGO_TARGET_DIR", None)
    return e


def cfg_miri_guard():
    """--cfg miri must only select ptr_map's twin; anything else makes the run inconclusive."""
    hits = []
    for root, _, files in os.walk(os.path.join(REPO, "src")):
        for fn in files:
            if fn.endswith(".rs"):
                for n, l in enumerate(open(os.path.join(root, fn)), 1):
                    if re.search(r"cfg\(\s*(not\(\s*)?miri", l) or "cfg!(miri" in l:
                        hits.append((os.path.join(root, fn), n, l.strip()))
    return hits


def family_feature(h):
    """ext harness modules are gated by a cargo feature per top-level module (family), so that one
    invocation only type-checks the family it needs."""
    if h.where != "ext":
        return None
    top = h.name.split("::")[0]
    if top == "gen":
        top = h.name.split("::")[1]
    return "fam_" + top


def worker_dir(fl, k):
    return os.path.join(WORK, "tw", fl, str(k))


def kani_cmd(h, td, playback=False, only_codegen=False):
    cwd, rf, feat, extra = flavour_cfg(h.flavour)
    feats = list(feat)
    ff = family_feature(h)
    if ff:
        # merge with flavour features
        if "--no-default-features" in feats:
            feats = ["--no-default-features", "--features", ff]
        elif "--features" in feats:
            feats = ["--features", feats[feats.index("--features") + 1] + "," + ff]
        else:
            feats = ["--features", ff]
    cmd = ["cargo", "kani"] + feats + ZFLAGS + extra + ["--harness", h.name, "--exact", "--target-dir", td]
    if only_codegen:
        cmd += ["--only-codegen"]
        return cwd, rf, cmd
    if "nounwind" in h.flags:
        cmd += ["--no-unwinding-checks"]
    if playback:
        cmd += ["-Z", "concrete-playback", "--concrete-playback=print"]
    if "leak" in h.flags:
        cmd += ["--cbmc-args", "--memory-leak-check"]
    return cwd, rf, cmd


def warm_flavour(fl, first, nworkers):
    """Compile the dependencies once (worker dir 0, codegen of one harness), then seed the other
    worker target dirs from it.  Each worker later recompiles only the harness crate for the single
    harness it runs (kani-compiler codegen is per selected harness)."""
    d0 = worker_dir(fl, 0)
    os.makedirs(d0, exist_ok=True)
    cwd, rf, cmd = kani_cmd(first, d0, only_codegen=True)
    t0 = time.time()
    lockf = open(os.path.join(WORK, "lock-" + fl), "w")
    fcntl.flock(lockf, fcntl.LOCK_EX)
    try:
        p = subprocess.run(cmd, cwd=cwd, env=env_for(rf), stdout=subprocess.PIPE, stderr=subprocess.STDOUT, text=True)
        ok = p.returncode == 0
        if ok:
            for k in range(1, nworkers):
                dk = worker_dir(fl, k)
                if not os.path.exists(dk):
                    subprocess.run(["cp", "-r", d0, dk])
    finally:
        fcntl.flock(lockf, fcntl.LOCK_UN)
    if not ok:
        log("BUILD FAILED for flavour", fl)
        log(p.stdout[-6000:])
    return ok, time.time() - t0, p.stdout


def run_all(harnesses, tier_timeout, mem_kb, on_result=None, nworkers=None):
    """Run harnesses on a pool of workers; worker k owns target dir k of each flavour."""
    import queue, threading
    nworkers = nworkers or NCPU
    flavours = sorted(set(h.flavour for h in harnesses))
    bad = {}
    build_s = 0.0
    for fl in flavours:
        first = [h for h in harnesses if h.flavour == fl][0]
        ok, dt, out = warm_flavour(fl, first, nworkers)
        build_s += dt
        log("[build] flavour %s: %s in %.1fs" % (fl, "ok" if ok else "FAILED", dt))
        if not ok:
            bad[fl] = out
    q = queue.Queue()
    for h in harnesses:
        if h.flavour not in bad:
            q.put(h)
    results = []
    lock = threading.Lock()

    def worker(k):
        while True:
            try:
                h = q.get_nowait()
            except queue.Empty:
                return
            td = worker_dir(h.flavour, k)
            os.makedirs(td, exist_ok=True)
            r = run_harness(h, td, tier_timeout, mem_kb)
            with lock:
                results.append(r)
                if on_result:
                    on_result(r)

    ts = [threading.Thread(target=worker, args=(k,)) for k in range(nworkers)]
    for t in ts:
        t.start()
    for t in ts:
        t.join()
    order = {(h.name, h.flavour): i for i, h in enumerate(harnesses)}
    results.sort(key=lambda r: order[(r.h.name, r.h.flavour)])
    return results, bad, build_s


# --------------------------------------------------------------------------- run one harness
# the description of an assert!(..) whose expression rustfmt wrapped over several lines contains newlines: match it non-greedily
# across lines (a check that is not parsed would turn a genuine FAILURE into "verdict FAILED without identified failing check")
CHECK_RE = re.compile(r"^Check (\d+): ([^\n]+)\n\t - Status: (\S+)\n\t - Description: \"(.*?)\"\n(?:\t - Location: ([^\n]*)\n)?", re.M | re.S)


class Result:
    pass


def run_harness(h, td, tier_timeout, mem_kb, playback=False):
    cwd, rf, cmd = kani_cmd(h, td, playback=playback)
    to = h.timeout or tier_timeout
    sh = "ulimit -v %d; exec timeout -k 5 %d %s" % (mem_kb, to, " ".join("'%s'" % c for c in cmd))
    t0 = time.time()
    p = subprocess.run(["bash", "-c", sh], cwd=cwd, env=env_for(rf), stdout=subprocess.PIPE, stderr=subprocess.STDOUT, text=True)
    r = Result()
    r.h = h
    r.wall = time.time() - t0
    r.rc = p.returncode
    r.out = p.stdout
    r.cmd = " ".join(cmd)
    parse_output(r)
    return r


def parse_output(r):
    out = r.out
    h = r.h
    r.checks = []
    for m in CHECK_RE.finditer(out):
        r.checks.append({"id": m.group(2), "status": m.group(3), "desc": re.sub(r"\s+", " ", m.group(4)), "loc": m.group(5) or ""})
    r.n_checks = len(r.checks)
    m = re.search(r"Verification Time: ([0-9.]+)s", out)
    r.solver_s = float(m.group(1)) if m else 0.0
    m = re.search(r"size of program expression: (\d+) steps", out)
    r.steps = int(m.group(1)) if m else 0
    m = re.search(r"(\d+) variables, (\d+) clauses", out)
    r.vars, r.clauses = (int(m.group(1)), int(m.group(2))) if m else (0, 0)
    r.stubs = re.findall(r"- Stub: (.*)", out)
    verdict_line = re.search(r"^VERIFICATION:- (\w+)", out, re.M)
    r.kani_verdict = verdict_line.group(1) if verdict_line else None
    r.verdict = None
    r.reason = ""
    r.offending = []
    if r.rc == 124 or r.rc == 137:
        r.verdict, r.reason = "INCONCLUSIVE", "timeout"
        return
    if r.kani_verdict is None or not r.checks:
        why = "no verdict"
        if "out of memory" in out.lower() or "std::bad_alloc" in out or "memory exhausted" in out.lower():
            why = "out of memory"
        elif re.search(r"^error", out, re.M):
            why = "build/driver error: " + (re.search(r"^error.*", out, re.M).group(0)[:200])
        r.verdict, r.reason = "INCONCLUSIVE", why
        return
    errs = [c for c in r.checks if c["status"] == "ERROR"]
    if errs:
        r.verdict, r.reason = "INCONCLUSIVE", "solver/back-end error (typically out of memory): %d checks with status ERROR" % len(errs)
        return
    fails = [c for c in r.checks if c["status"] == "FAILURE"]
    undet = [c for c in r.checks if c["status"] == "UNDETERMINED"]
    covers = [c for c in r.checks if ".cover." in c["id"]]
    r.covers_sat = [c["desc"] for c in covers if c["status"] == "SATISFIED"]
    key = lambda c: c["desc"] + " @ " + c["loc"]
    # unwinding assertions
    unw = [c for c in fails if "unwinding assertion" in c["desc"]]
    if unw:
        r.verdict, r.reason = "INCONCLUSIVE", "unwinding assertion failed (bound too small): " + key(unw[0])
        return
    unsupported = [c for c in fails if "unsupported_construct" in c["id"] or "is not currently supported by Kani" in c["desc"]]
    offending = []
    for c in fails:
        if c in unsupported:
            continue
        if "RETURNED" in c["desc"] or "VACUITY_WITNESS" in c["desc"]:
            offending.append(c)  # never allowed by a pattern
            continue
        if any(_search(a, key(c), c) for a in h.allow):
            continue
        offending.append(c)
    if "witness" in h.flags:
        # vacuity witness: must fail at its final assert(false) and nowhere else
        wit = [c for c in fails if "VACUITY_WITNESS" in c["desc"]]
        if not wit:
            r.verdict, r.reason = "INCONCLUSIVE", "vacuity witness did not fail: the harness family no longer reaches its end"
            return
        offending = [c for c in offending if "VACUITY_WITNESS" not in c["desc"]]
    if offending:
        r.verdict = "FAIL"
        r.offending = offending
        return
    if unsupported:
        r.verdict, r.reason = "INCONCLUSIVE", "unsupported construct reached: " + key(unsupported[0])[:300]
        return
    for mf in h.must_fail:
        if not any(_search(mf, key(c), c) for c in fails):
            r.verdict, r.reason = "INCONCLUSIVE", "expected failure not observed: " + mf.pattern
            return
    if undet:
        r.verdict, r.reason = "INCONCLUSIVE", "undetermined checks: " + key(undet[0])
        return
    bad_cov = [c for c in covers if c["status"] != "SATISFIED" and not any(n.search(c["desc"]) for n in h.nocover)]
    if bad_cov:
        r.verdict, r.reason = "INCONCLUSIVE", "cover point not reached (%s): %s" % (bad_cov[0]["status"], bad_cov[0]["desc"])
        return
    if "witness" not in h.flags and not h.allow and not h.must_fail and r.kani_verdict != "SUCCESSFUL":
        r.verdict, r.reason = "INCONCLUSIVE", "kani verdict %s without identified failing check" % r.kani_verdict
        return
    r.verdict = "PASS"


def variant(h, extra_flag):
    """copy of a harness that runs in another build flavour (C16: debug assertions off / feature sets / cfg twin)"""
    import copy
    v = copy.copy(h)
    v.flags = set(h.flags) | {extra_flag}
    v.note = (h.note + "+" if h.note else "") + extra_flag
    return v


def functions_encoded(results):
    fs = set()
    for r in results:
        for c in r.checks:
            if c["status"] in ("SUCCESS", "FAILURE", "SATISFIED"):
                m = re.search(r"in function (.*)$", c["loc"])
                if m and ("bytes" in c["loc"].split(" in function ")[0] or m.group(1).startswith("bytes")):
                    f = m.group(1)
                    if f.startswith("bytes::") or f.startswith("<bytes::") or "bytes::" in f:
                        fs.add(f)
    return sorted(fs)
