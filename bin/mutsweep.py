#!/usr/bin/env python3
"""mutsweep.py: a small mutation sweep used while building (NOT a registered check).

For a seeded random sample of single-site textual mutants of /repo/src (comparison boundary, +/- swap, min/max swap, dropped
statement) it (a) builds the mutant and runs the crate's own test suite in a scratch copy, (b) for the mutants the suite does NOT
kill, runs the checks that cover the mutated file in VERIF_REPO screening mode (bin/check --no-replay) and records whether any
check reports a violation.  Survivors (suite passes, no check alarms) are either equivalent mutants or blind spots: they are
listed for manual triage.  Usage: mutsweep.py <n mutants> <seed> [file regex]
"""
import os, re, sys, json, random, shutil, subprocess, time

N = int(sys.argv[1]); SEED = int(sys.argv[2]); FRE = re.compile(sys.argv[3]) if len(sys.argv) > 3 else re.compile(".")
OUT = "/verif/.work/mutsweep"
os.makedirs(OUT, exist_ok=True)
FILES = ["src/bytes.rs", "src/bytes_mut.rs", "src/buf/buf_impl.rs", "src/buf/buf_mut.rs", "src/buf/chain.rs", "src/buf/take.rs",
         "src/buf/limit.rs", "src/buf/uninit_slice.rs", "src/buf/vec_deque.rs", "src/buf/reader.rs", "src/buf/writer.rs",
         "src/buf/iter.rs", "src/fmt/debug.rs", "src/fmt/hex.rs"]
# which checks look at a file: (property, --only regex or None)
CHECKS = {
    "src/bytes.rs": [("C02", "verif_incrate"), ("C14", None), ("C01", "seq::|misc_"), ("C13", "ooc")],
    "src/bytes_mut.rs": [("C02", "verif_incrate"), ("C14", None), ("C01", "seq::|misc_"), ("C13", "ooc")],
    "src/buf/buf_impl.rs": [("C10", "_u16_|_i32_le|_u64_ne|_int_|_uint_le|get_u8|get_i8|f32"), ("C09", None)],
    "src/buf/buf_mut.rs": [("C11", "c11x|_u16_|_i32_le|_int_|put_u8|put_i8"), ("C13", "c11x|too_wide")],
    "src/buf/chain.rs": [("C09", None), ("C12", None), ("C11", "c11x|chain")],
    "src/buf/take.rs": [("C09", None), ("C12", None)],
    "src/buf/limit.rs": [("C12", None), ("C11", "c11x|limit")],
    "src/buf/uninit_slice.rs": [("C11", "c11x|uninit"), ("C02", "c11x")],
    "src/buf/vec_deque.rs": [("C09", None)],
    "src/buf/reader.rs": [("C12", None)],
    "src/buf/writer.rs": [("C12", None)],
    "src/buf/iter.rs": [("C09", None)],
    "src/fmt/debug.rs": [("C15", None)],
    "src/fmt/hex.rs": [("C15", None)],
}
OPS = [
    (re.compile(r"(?<![<>=!-])<=(?!=)"), "<"), (re.compile(r"(?<![<>=!-])>=(?!=)"), ">"),
    (re.compile(r"(?<![<>=!&|-]) < (?![=<])"), " <= "), (re.compile(r"(?<![<>=!-]) > (?![=>])"), " >= "),
    (re.compile(r" \+ "), " - "), (re.compile(r" - "), " + "), (re.compile(r" \+= "), " -= "), (re.compile(r" -= "), " += "),
    (re.compile(r"\bmin\("), "max("), (re.compile(r"\bmax\("), "min("), (re.compile(r" == "), " != "), (re.compile(r" != "), " == "),
]


def code_lines(path):
    """(line number, text) of mutable code lines: not comments / docs / attributes / test modules"""
    out = []
    intest = False
    depth_test = None
    for n, l in enumerate(open(path).read().split("\n"), 1):
        st = l.strip()
        if st.startswith("#[cfg(test)]") or st.startswith("#[cfg(all(test"):
            intest = True
        if intest:
            continue   # test modules are at the end of the files
        if not st or st.startswith("//") or st.startswith("#[") or st.startswith("use ") or "debug_assert" in st or st.startswith("\""):
            continue
        out.append((n, l))
    return out


def mutants():
    ms = []
    for f in FILES:
        if not FRE.search(f):
            continue
        for n, l in code_lines("/repo/" + f):
            code = l.split("//")[0]
            for rx, rep in OPS:
                for m in rx.finditer(code):
                    ms.append((f, n, m.start(), m.end(), rep, "%s -> %s" % (m.group(0).strip(), rep.strip())))
            st = code.strip()
            if re.match(r"^(self\.\w+|\(\*\w+\)\.\w+|\w+) (\+=|-=|=) [^=].*;$", st) and "let " not in st:
                ms.append((f, n, None, None, None, "drop statement"))
    return ms


def run(cmd, cwd, timeout, env=None):
    """own process group, killed as a whole on timeout: a mutant can make a TEST BINARY spin forever, and killing only `cargo test`
    leaves that grandchild running (one such leftover burned eight cores for seven hours during the build phase)"""
    import signal
    p = subprocess.Popen(cmd, cwd=cwd, stdout=subprocess.PIPE, stderr=subprocess.STDOUT, text=True, env=env, start_new_session=True)
    try:
        out, _ = p.communicate(timeout=timeout)
        return p.returncode, out
    except subprocess.TimeoutExpired:
        try:
            os.killpg(p.pid, signal.SIGKILL)
        except ProcessLookupError:
            pass
        out, _ = p.communicate()
        return 124, out or ""


def main():
    rnd = random.Random(SEED)
    ms = mutants()
    rnd.shuffle(ms)
    log = open(os.path.join(OUT, "sweep_%d.jsonl" % SEED), "a")
    done = 0
    for (f, n, a, b, rep, what) in ms:
        if done >= N:
            break
        d = "/tmp/ms_%d" % SEED   # one scratch path per sweep: the screening work dir (.work/alt_<hash>) and its build caches stay warm
        subprocess.check_call(["rsync", "-a", "--delete", "--exclude", "target", "--exclude", ".git", "/repo/", d + "/"])
        lines = open(os.path.join(d, f)).read().split("\n")
        old = lines[n - 1]
        lines[n - 1] = ("// " + old) if rep is None else old[:a] + rep + old[b:]
        open(os.path.join(d, f), "w").write("\n".join(lines))
        env = dict(os.environ, CARGO_NET_OFFLINE="true", CARGO_TARGET_DIR="/tmp/ms_target_%d" % SEED)
        rc, out = run(["cargo", "test", "--offline", "--workspace", "--no-fail-fast", "-q"], d, 900, env)
        rec = {"file": f, "line": n, "what": what, "old": old.strip(), "new": lines[n - 1].strip()}
        if rc != 0:
            rec["suite"] = "killed" if "test result: FAILED" in out or "panicked" in out else "build/other failure"
            log.write(json.dumps(rec) + "\n"); log.flush()
            continue
        done += 1
        rec["suite"] = "passes"
        rec["checks"] = {}
        caught = False
        for prop, only in CHECKS[f]:
            env2 = dict(os.environ, VERIF_REPO=d, VERIF_JOBS=os.environ.get("VERIF_JOBS", "8"))
            cmd = ["python3", "/verif/bin/check", prop, "--tier", "quick", "--no-replay"] + (["--only", only] if only else [])
            rc2, out2 = run(cmd, "/verif", 3600, env2)
            viol = re.findall(r"^VIOLATION.*", out2, re.M)
            det = re.findall(r"^  detail: (.{0,160})", out2, re.M)
            rec["checks"][prop] = {"exit": rc2, "violations": len(viol), "first": det[:1]}
            if viol:
                caught = True
                break
        rec["caught"] = caught
        log.write(json.dumps(rec) + "\n"); log.flush()
        print(("CAUGHT  " if caught else "SURVIVED"), f, n, what, "|", rec["new"][:90], flush=True)
    import hashlib
    shutil.rmtree("/verif/.work/alt_" + hashlib.sha1(os.path.realpath("/tmp/ms_%d" % SEED).encode()).hexdigest()[:8], ignore_errors=True)
    shutil.rmtree("/tmp/ms_%d" % SEED, ignore_errors=True)
    shutil.rmtree("/tmp/ms_target_%d" % SEED, ignore_errors=True)


main()
