"""Counterexample extraction (Kani concrete playback) and native replay.

replay(result, prop, offending) -> (path, status)
  status: 'reproduced:dev+release' | 'reproduced:dev' | 'reproduced:release' |
          'cbmc-only:ub-class' (memory-safety class check; not observable in a native run, reported separately) |
          'not-reproduced' (assertion-class check that passes natively: the encoding is suspect -> exit 2) |
          'no-counterexample' (playback produced no test)
"""
import os, re, subprocess, shutil, tempfile, time
import vlib

UB_CLASS = re.compile(r"dereference failure|pointer (NULL|invalid|outside)|deallocated|dead object|free argument|double free|"
                      r"rust_dealloc|allocated size|dynamically allocated memory never freed|memcpy|memmove|misaligned|"
                      r"same object|pointer arithmetic|invalid integer address|offset result|pointer relation", re.I)
TEST_RE = re.compile(r"Concrete playback unit test for `([^`]+)`:\n```\n(.*?)\n```", re.S)


def extract_tests(out):
    tests = []
    for m in TEST_RE.finditer(out):
        src = m.group(2)
        cm = re.search(r"/// Check for `(\w+)`: \"(.*)\"", src)
        fm = re.search(r"fn (kani_concrete_playback_\w+)\(", src)
        tests.append({"harness": m.group(1), "class": cm.group(1) if cm else "", "desc": cm.group(2) if cm else "",
                      "fn": fm.group(1) if fm else "", "src": src})
    return tests


def native_run(h, test, release):
    """Build a scratch copy with the test appended next to the harness and run it natively."""
    scratch = tempfile.mkdtemp(prefix="vreplay_")
    try:
        env = dict(os.environ)
        env["CARGO_NET_OFFLINE"] = "true"
        env["CARGO_TARGET_DIR"] = os.path.join(scratch, "target")
        env["RUST_BACKTRACE"] = "0"
        if h.where == "ext":
            for f in ("Cargo.toml", "Cargo.lock", ".cargo", "src"):
                s = os.path.join(vlib.EXT, f)
                d = os.path.join(scratch, f)
                if os.path.isdir(s):
                    shutil.copytree(s, d)
                else:
                    shutil.copy(s, d)
            rel = os.path.relpath(h.src_file, vlib.EXT)
            with open(os.path.join(scratch, rel), "a") as f:
                f.write("\n" + test["src"] + "\n")
            cwd = scratch
            env["RUSTFLAGS"] = "--cfg tokio_rs_bytes_verif"
        else:
            # in-crate: scratch copy of /repo whose #[path] hooks point to scratch copies of the harness modules
            for f in ("Cargo.toml", "Cargo.lock", "src"):
                s = os.path.join(vlib.REPO, f)
                d = os.path.join(scratch, f)
                if os.path.isdir(s):
                    shutil.copytree(s, d)
                else:
                    shutil.copy(s, d)
            inc = os.path.join(scratch, "incrate")
            shutil.copytree(vlib.INCRATE, inc)
            for root, _, files in os.walk(os.path.join(scratch, "src")):
                for fn in files:
                    p = os.path.join(root, fn)
                    s = open(p).read()
                    if vlib.INCRATE in s:
                        open(p, "w").write(s.replace(vlib.INCRATE, inc))
            with open(os.path.join(inc, os.path.basename(h.src_file)), "a") as f:
                f.write("\n" + test["src"] + "\n")
            cwd = scratch
            env["RUSTFLAGS"] = "--cfg tokio_rs_bytes_verif"
        cmd = ["cargo", "kani", "playback", "-Z", "concrete-playback"]
        ff = vlib.family_feature(h)
        if ff:
            cmd += ["--features", ff]
        if release:
            # `cargo kani playback` has no --release: emulate the release profile through profile overrides
            for prof in ("DEV", "TEST"):
                env["CARGO_PROFILE_%s_OPT_LEVEL" % prof] = "3"
                env["CARGO_PROFILE_%s_DEBUG_ASSERTIONS" % prof] = "false"
                env["CARGO_PROFILE_%s_OVERFLOW_CHECKS" % prof] = "false"
        cmd += ["--", test["fn"]]
        p = subprocess.run(["timeout", "600"] + cmd, cwd=cwd, env=env, stdout=subprocess.PIPE, stderr=subprocess.STDOUT, text=True)
        out = p.stdout
        ran = re.search(r"test result: (\w+)\. (\d+) passed; (\d+) failed", out)
        if not ran:
            return "error", out
        if int(ran.group(3)) > 0:
            return "failed", out
        if int(ran.group(2)) > 0:
            return "passed", out
        return "error", out
    finally:
        shutil.rmtree(scratch, ignore_errors=True)


def replay(r, prop, offending):
    h = r.h
    td = vlib.worker_dir(h.flavour, 0)
    rdir = os.path.join(vlib.VERIF, "replays", prop, h.name.replace("::", "__"))
    os.makedirs(rdir, exist_ok=True)
    open(os.path.join(rdir, "kani.log"), "w").write(r.out)
    r2 = vlib.run_harness(h, td, 1800, 16000000, playback=True)
    tests = extract_tests(r2.out)
    descs = [c["desc"] for c in offending]
    pick = None
    for t in tests:
        if t["class"] != "cover" and any(t["desc"] == d or t["desc"] in d or d in t["desc"] for d in descs):
            pick = t
            break
    if pick is None:
        for t in tests:
            if t["class"] != "cover":
                pick = t
                break
    if pick is None:
        open(os.path.join(rdir, "README.txt"), "w").write("no concrete-playback test was produced\n")
        ub = all(UB_CLASS.search(c["desc"]) for c in offending)
        return rdir, ("cbmc-only:ub-class" if ub else "no-counterexample")
    open(os.path.join(rdir, "test.rs"), "w").write(pick["src"] + "\n")
    res = {}
    logs = []
    for rel in (False, True):
        st, out = native_run(h, pick, rel)
        res["release" if rel else "dev"] = st
        logs.append("===== %s =====\n%s" % ("release" if rel else "dev", out[-8000:]))
    open(os.path.join(rdir, "native.log"), "w").write("\n".join(logs))
    open(os.path.join(rdir, "README.txt"), "w").write(
        "harness: %s (%s)\nfailing checks:\n%s\nnative replay: %s\n"
        "to re-run: append test.rs to %s in a scratch copy and run `cargo kani playback -Z concrete-playback -- %s`\n"
        % (h.name, h.src_file, "\n".join("  " + c["desc"] + " @ " + c["loc"] for c in offending), res, h.src_file, pick["fn"]))
    failed = [k for k, v in res.items() if v == "failed"]
    if failed:
        return rdir, "reproduced:" + "+".join(failed)
    if all(UB_CLASS.search(c["desc"]) for c in offending):
        return rdir, "cbmc-only:ub-class"
    if any(v == "error" for v in res.values()):
        return rdir, "replay-build-error"
    return rdir, "not-reproduced"
