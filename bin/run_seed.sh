#!/bin/bash
# run_seed.sh <seed dir name> <PROP> [extra check args]: apply a seeded patch to /repo, run the check, undo the patch.
s=/verif/seeded/$1; p=$2; shift 2
[ -z "$(git -C /repo status --porcelain -- src)" ] || { echo "/repo has local changes, refusing"; exit 3; }
git -C /repo apply $s/patch.diff || exit 3
trap 'git -C /repo checkout -- . ' EXIT
python3 /verif/bin/check $p "$@"
echo "check exit code: $?"
