"""E2 path queries over the MIR of /repo's working tree (no bounds: facts of the compiler's control-flow graph).

C13 (clause ii, 'every handle still has its previous state after the caught panic'): Kani cannot execute unwinding.
  What is decided instead: for every `&mut self` method of Bytes / BytesMut that panics on its arguments, on EVERY path
  from entry to a crate-level panic (assert! / panic! / expect on the argument checks) there is NO earlier store through
  `*self`, no earlier atomic read-modify-write (a reference taken that unwinding would have to give back) and no
  earlier buffer write.  Then the panic is the first effect and unwinding has nothing to restore.
C03 (owner clause 'also when as_ref panics'): in `Bytes::from_owner` the unwind edge of the `as_ref` call leads to a
  cleanup block that drops the local already holding the constructed `Bytes` (whose drop releases the heap block and
  the owner exactly once: F-STEP owned state with count 1), and the owner was moved into the block before the call.
"""
import os, re, sys, time, json
sys.path.insert(0, os.path.dirname(os.path.abspath(__file__)))
import mirsym

REPO = os.environ.get("VERIF_REPO", "/repo")

# (module prefix, method name, first-param type fragment)
PANICKING = [
    ("bytes::", "split_off", "&mut bytes::Bytes"), ("bytes::", "split_to", "&mut bytes::Bytes"),
    ("bytes::", "advance", "&mut bytes::Bytes"),
    ("bytes_mut::", "split_off", "&mut BytesMut"), ("bytes_mut::", "split_to", "&mut BytesMut"),
    ("bytes_mut::", "advance", "&mut BytesMut"), ("bytes_mut::", "advance_mut", "&mut BytesMut"),
    ("bytes_mut::", "truncate", "&mut BytesMut"), ("bytes_mut::", "set_len", "&mut BytesMut"),
    ("bytes_mut::", "reserve_inner", "&mut BytesMut"),
]


def root_is_self(v, fname):
    """does an abstract pointer value denote (something reached through) the function's first parameter?"""
    seen = 0
    while isinstance(v, tuple) and seen < 20:
        seen += 1
        if v[0] == "arg" and v[1] == fname and v[2] == 1:
            return True
        if v[0] in ("ref", "deref", "field", "downcast", "through", "cell", "fieldof"):
            v = v[1]
            continue
        return False
    return False


def find_fn(funcs, mod, meth, ptype):
    out = []
    for name, f in funcs.items():
        if name.startswith(mod + "<impl at") and name.endswith("::" + meth) and ptype in f.ptypes.get("_1", ""):
            out.append(f)
    return out


def run(prop, tier, seed):
    t0 = time.time()
    rep = {"engine": "E2-mirsym-pathq", "queries": 0, "nontrivial": 0, "obligations": 0, "discharged": 0, "solver_s": 0.0,
           "inconclusive": [], "violations": [], "known": [], "samples": [], "functions": []}
    try:
        mir = mirsym.dump_mir(REPO)
        funcs, consts = mirsym.parse(mir)
    except mirsym.Unknown as e:
        rep["inconclusive"].append(str(e))
        return [rep]
    if prop == "C13":
        outdir = "/verif/replays/C13/pathq"
        os.makedirs(outdir, exist_ok=True)
        for mod, meth, ptype in PANICKING:
            fs = find_fn(funcs, mod, meth, ptype)
            if not fs:
                rep["inconclusive"].append("method %s%s(%s) not found in the MIR dump" % (mod, meth, ptype))
                continue
            f = fs[0]
            w = mirsym.Walker(funcs, consts, max_paths=2000)
            try:
                paths = w.run(f.name)
            except mirsym.Unknown as e:
                rep["inconclusive"].append("%s: %s" % (f.name, e))
                continue
            rep["functions"].append(f.name)
            npanic = 0
            bad = []
            for p in paths:
                if p[-1][1] != "panic":
                    continue
                npanic += 1
                effects = []
                for it in p[:-1]:
                    if it[0] == "N" and it[1] == "PLAIN_W" and root_is_self(it[2], f.name):
                        effects.append("store through *self")
                    if it[0] == "N" and it[1] in ("WRITE_BUF", "FREE_BUF", "FREE_CTRL", "TAKE_BUF", "ALLOC_CTRL"):
                        effects.append(it[1])
                    if it[0] == "A" and it[2] in ("fetch_add", "fetch_sub", "store", "swap", "compare_exchange"):
                        effects.append("atomic " + it[2])
                if effects:
                    bad.append((effects, mirsym.fmt_path(p)))
            rep["queries"] += 1
            rep["obligations"] += max(1, npanic)
            rep["nontrivial"] += 1 if npanic else 0
            if bad:
                fn = os.path.join(outdir, "%s_%s.txt" % (mod.strip(":"), meth))
                open(fn, "w").write("function: %s\npaths that reach a crate-level panic AFTER an effect:\n%s\n" % (
                    f.name, "\n".join("  effects %s\n    %s" % (e, pth) for e, pth in bad)))
                rep["violations"].append(("%s%s: a path reaches the argument panic after %s" % (mod, meth, sorted(set(bad[0][0]))), fn))
            else:
                rep["discharged"] += max(1, npanic)
            rep["samples"].append({"method": mod + meth, "paths": len(paths), "panic_paths": npanic, "effect_before_panic": len(bad)})
    if prop == "C03":
        # CFG fact in from_owner
        cands = [f for n, f in funcs.items() if n.endswith("::from_owner")]
        rep["queries"] += 1
        rep["obligations"] += 3
        if not cands:
            rep["inconclusive"].append("from_owner not found in the MIR dump")
        else:
            f = cands[0]
            rep["functions"].append(f.name)
            call_bb, unwind_bb = None, None
            order = sorted(f.blocks, key=lambda b: int(b[2:]))
            for bb in order:
                term = f.blocks[bb][-1]
                m = re.search(r"as AsRef<\[u8\]>>::as_ref\(.*\) -> \[return: (bb\d+), unwind: (bb\d+)\]", term)
                if m:
                    call_bb, unwind_bb = bb, m.group(2)
            facts = {}
            if call_bb is None:
                rep["inconclusive"].append("no call to AsRef::as_ref with an unwind edge in from_owner")
            else:
                # (1) exactly one as_ref call
                ncalls = sum(1 for bb in f.blocks for ln in f.blocks[bb] if "as AsRef<[u8]>>::as_ref(" in ln)
                facts["as_ref called exactly once"] = ncalls == 1
                # (2) the cleanup chain from the unwind edge drops a local of type Bytes (the constructed handle)
                seen, cur, dropped = set(), unwind_bb, []
                while cur and cur not in seen:
                    seen.add(cur)
                    term = f.blocks[cur][-1]
                    dm = re.match(r"drop\((_\d+)\) -> \[return: (bb\d+)", term)
                    if dm:
                        dropped.append(f.ltypes.get(dm.group(1), "?"))
                        cur = dm.group(2)
                        continue
                    gm = re.match(r"goto -> (bb\d+)", term)
                    cur = gm.group(1) if gm else None
                facts["unwind edge of as_ref drops the constructed Bytes"] = any(t.strip() == "bytes::Bytes" for t in dropped)
                # (3) the owner was moved into the heap block and the Bytes was built before the call, and nothing frees
                # the block on the way (no drop / dealloc statement between Box::into_raw and the call)
                pre = []
                for bb in order:
                    pre += f.blocks[bb]
                    if bb == call_bb:
                        break
                txt = "\n".join(pre)
                facts["owner moved into the block and Bytes built before as_ref"] = ("Box::<bytes::Owned<T>>::into_raw" in txt and "bytes::Bytes {" in txt
                                                                                     and not re.search(r"^drop\(|dealloc|from_raw", txt, re.M))
                for k, v in facts.items():
                    if v:
                        rep["discharged"] += 1
                    else:
                        rep["violations"].append(("from_owner: CFG fact does not hold: " + k, "/verif/replays/C03/from_owner_cfg.txt"))
                        os.makedirs("/verif/replays/C03", exist_ok=True)
                        open("/verif/replays/C03/from_owner_cfg.txt", "w").write("from_owner CFG facts: %r\n\n%s\n" % (facts, "\n".join("%s: %s" % (b, f.blocks[b]) for b in order)))
                rep["nontrivial"] += 1
                rep["samples"].append({"from_owner_cfg_facts": facts, "cleanup_drops": dropped})
    rep["wall_s"] = round(time.time() - t0, 1)
    print("[E2-pathq] %s: %d queries, %d/%d obligations, %d violations, %d inconclusive" % (
        prop, rep["queries"], rep["discharged"], rep["obligations"], len(rep["violations"]), len(rep["inconclusive"])), flush=True)
    return [rep]


if __name__ == "__main__":
    for r in run(sys.argv[1], "quick", 0):
        print(json.dumps(r, indent=1)[:3000])
