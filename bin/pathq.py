"""E2 path queries over the MIR of /repo's working tree (no bounds: facts of the compiler's control-flow graph).

C13 (clause ii, 'every handle still has its previous state after the caught panic'): Kani cannot execute unwinding.
  What is decided instead: for every `&mut self` method of Bytes / BytesMut that panics on its arguments, on EVERY path
  from entry to a crate-level panic (assert! / panic! / expect on the argument checks) there is NO earlier store through
  `*self`, no earlier atomic read-modify-write (a reference taken that unwinding would have to give back) and no
  earlier buffer write.  Then the panic is the first effect and unwinding has nothing to restore.
C03 (owner clause 'also when as_ref panics'): in `Bytes::from_owner` the unwind edge of the `as_ref` call leads to a
  cleanup block that drops the local already holding the constructed `Bytes` (whose drop releases the heap block and
  the owner exactly once: F-STEP owned state with count 1), and the owner was moved into the block before the call.
"""
import os, re, sys, time, json
sys.path.insert(0, os.path.dirname(os.path.abspath(__file__)))
import mirsym

REPO = os.environ.get("VERIF_REPO", "/repo")

# (module prefix, method name, first-param type fragment)
PANICKING = [
    ("bytes::", "split_off", "&mut bytes::Bytes"), ("bytes::", "split_to", "&mut bytes::Bytes"),
    ("bytes::", "advance", "&mut bytes::Bytes"),
    ("bytes_mut::", "split_off", "&mut BytesMut"), ("bytes_mut::", "split_to", "&mut BytesMut"),
    ("bytes_mut::", "advance", "&mut BytesMut"), ("bytes_mut::", "advance_mut", "&mut BytesMut"),
    ("bytes_mut::", "truncate", "&mut BytesMut"), ("bytes_mut::", "set_len", "&mut BytesMut"),
    ("bytes_mut::", "reserve_inner", "&mut BytesMut"),
]


def root_is_self(v, fname):
    """does an abstract pointer value denote (something reached through) the function's first parameter?"""
    seen = 0
    while isinstance(v, tuple) and seen < 20:
        seen += 1
        if v[0] == "arg" and v[1] == fname and v[2] == 1:
            return True
        if v[0] in ("ref", "deref", "field", "downcast", "through", "cell", "fieldof"):
            v = v[1]
            continue
        return False
    return False


def find_fn(funcs, mod, meth, ptype):
    out = []
    for name, f in funcs.items():
        if name.startswith(mod + "<impl at") and name.endswith("::" + meth) and ptype in f.ptypes.get("_1", ""):
            out.append(f)
    return out


def run(prop, tier, seed):
    t0 = time.time()
    rep = {"engine": "E2-mirsym-pathq", "queries": 0, "nontrivial": 0, "obligations": 0, "discharged": 0, "solver_s": 0.0,
           "inconclusive": [], "violations": [], "known": [], "samples": [], "functions": []}
    try:
        mir = mirsym.dump_mir(REPO)
        funcs, consts = mirsym.parse(mir)
    except mirsym.Unknown as e:
        rep["inconclusive"].append(str(e))
        return [rep]
    if prop == "C13":
        outdir = "/verif/replays/C13/pathq"
        os.makedirs(outdir, exist_ok=True)
        for mod, meth, ptype in PANICKING:
            fs = find_fn(funcs, mod, meth, ptype)
            if not fs:
                rep["inconclusive"].append("method %s%s(%s) not found in the MIR dump" % (mod, meth, ptype))
                continue
            f = fs[0]
            w = mirsym.Walker(funcs, consts, max_paths=2000)
            try:
                paths = w.run(f.name)
            except mirsym.Unknown as e:
                rep["inconclusive"].append("%s: %s" % (f.name, e))
                continue
            rep["functions"].append(f.name)
            npanic = 0
            bad = []
            for p in paths:
                if p[-1][1] != "panic":
                    continue
                npanic += 1
                effects = []
                for it in p[:-1]:
                    if it[0] == "N" and it[1] == "PLAIN_W" and root_is_self(it[2], f.name):
                        effects.append("store through *self")
                    if it[0] == "N" and it[1] in ("WRITE_BUF", "FREE_BUF", "FREE_CTRL", "TAKE_BUF", "ALLOC_CTRL"):
                        effects.append(it[1])
                    if it[0] == "A" and it[2] in ("fetch_add", "fetch_sub", "store", "swap", "compare_exchange"):
                        effects.append("atomic " + it[2])
                if effects:
                    bad.append((effects, mirsym.fmt_path(p)))
            rep["queries"] += 1
            rep["obligations"] += max(1, npanic)
            rep["nontrivial"] += 1 if npanic else 0
            if bad:
                fn = os.path.join(outdir, "%s_%s.txt" % (mod.strip(":"), meth))
                open(fn, "w").write("function: %s\npaths that reach a crate-level panic AFTER an effect:\n%s\n" % (
                    f.name, "\n".join("  effects %s\n    %s" % (e, pth) for e, pth in bad)))
                rep["violations"].append(("%s%s: a path reaches the argument panic after %s" % (mod, meth, sorted(set(bad[0][0]))), fn))
            else:
                rep["discharged"] += max(1, npanic)
            rep["samples"].append({"method": mod + meth, "paths": len(paths), "panic_paths": npanic, "effect_before_panic": len(bad)})
    if prop == "C04":
        # Zero-copy merge in BytesMut::try_unsplit: two handles may only be glued together when they provably lie in ONE
        # allocation, i.e. both are in the shared form on the same control block.  CBMC cannot model two distinct
        # allocations at adjacent addresses (objects are never adjacent), so this clause is decided on the path condition:
        # for every path of try_unsplit that stores to self (len/cap grow), PC /\ not(kind(self)==ARC /\ kind(other)==ARC)
        # must be unsatisfiable (z3 over the two symbolic `data` words).
        import z3
        fs = find_fn(funcs, "bytes_mut::", "try_unsplit", "&mut BytesMut")
        rep["queries"] += 1
        if not fs:
            rep["inconclusive"].append("try_unsplit not found in the MIR dump")
        else:
            f = fs[0]
            rep["functions"].append(f.name)
            BMF = lambda tag: [("unk", tag + ".ptr"), ("unk", tag + ".len"), ("unk", tag + ".cap"), ("sym", tag + ".data")]
            w = mirsym.Walker(funcs, consts, max_paths=500)
            try:
                paths = w.run(f.name, {1: ("byref_agg", "BytesMut", BMF("self")), 2: ("agg", "BytesMut", BMF("other"))})
            except mirsym.Unknown as e:
                rep["inconclusive"].append("%s: %s" % (f.name, e))
                paths = []
            zs = {"self.data": z3.BitVec("self_data", 64), "other.data": z3.BitVec("other_data", 64)}
            def term(v):
                if v[0] == "const":
                    return z3.BitVecVal(v[1], 64)
                if v[0] == "sym":
                    return zs[v[1]]
                if v[0] == "and":
                    t = term(v[1])
                    return None if t is None else (t & z3.BitVecVal(v[2], 64))
                return None
            def cond(g):
                v, exp = g[1], g[2]
                if v[0] == "cmp":
                    a, b = term(v[2]), term(v[3])
                    if a is None or b is None:
                        return None
                    c = {"Eq": a == b, "Ne": a != b}.get(v[1])
                    if c is None:
                        return None
                    return z3.Not(c) if exp == 0 else c
                t = term(v)
                if t is None:
                    return None
                if isinstance(exp, int):
                    return t == z3.BitVecVal(exp, 64)
                return z3.And([t != z3.BitVecVal(k, 64) for k in exp[1]])
            merge_paths = 0
            bad = []
            for pth in paths:
                stores = [it for it in pth if it[0] == "N" and it[1] == "PLAIN_W"]
                grew = any(it[0] == "G" for it in pth) and any("self" in repr(it) or True for it in stores) and len(stores) > 0
                # a merge path is one that writes self's fields (len/cap): detected by assignments into the self aggregate
                if not getattr(w, "self_writes", None):
                    pass
                conds = [cond(it) for it in pth if it[0] == "G"]
                conds = [c for c in conds if c is not None]
                returns_ok = any(it[0] == "G" for it in pth)
                # classify by the returned discriminant: Ok(()) paths after the adjacency test are merge paths
                touched = any(it[0] == "G" and "data" in repr(it[1]) for it in pth)
                if not touched:
                    continue
                merge_paths += 1
                sol = z3.Solver()
                sol.add(conds)
                sol.add(z3.Or(zs["self.data"] & 1 == 1, zs["other.data"] & 1 == 1))
                # only paths on which the data words were found EQUAL are merges
                eq_seen = any(it[0] == "G" and it[1][0] == "cmp" and it[1][1] == "Eq" and "self.data" in repr(it[1]) and "other.data" in repr(it[1]) and it[2] != 0 for it in pth)
                if not eq_seen:
                    merge_paths -= 1
                    continue
                rep["obligations"] += 1
                if sol.check() == z3.sat:
                    bad.append(mirsym.fmt_path(pth))
                else:
                    rep["discharged"] += 1
            rep["nontrivial"] += 1 if merge_paths else 0
            rep["samples"].append({"try_unsplit_paths": len(paths), "merge_paths": merge_paths, "merge_reachable_for_inline_vec_handles": len(bad)})
            if merge_paths == 0 and paths:
                rep["inconclusive"].append("try_unsplit: no path with the data-equality test found (skeleton changed?)")
            if bad:
                os.makedirs("/verif/replays/C04", exist_ok=True)
                fn = "/verif/replays/C04/try_unsplit_merge.txt"
                open(fn, "w").write("try_unsplit: the zero-copy merge is reachable although one of the handles is in the inline-Vec form\n(two inline-Vec handles never share an allocation; with adjacent allocations the merged region spans two of them):\n" + "\n".join(bad) + "\n")
                rep["violations"].append(("try_unsplit: zero-copy merge reachable for inline-Vec handles (path condition satisfiable with data & 1 == 1)", fn))
    if prop == "C03":
        # CFG fact in from_owner
        cands = [f for n, f in funcs.items() if n.endswith("::from_owner")]
        rep["queries"] += 1
        rep["obligations"] += 3
        if not cands:
            rep["inconclusive"].append("from_owner not found in the MIR dump")
        else:
            f = cands[0]
            rep["functions"].append(f.name)
            call_bb, unwind_bb = None, None
            order = sorted(f.blocks, key=lambda b: int(b[2:]))
            for bb in order:
                term = f.blocks[bb][-1]
                m = re.search(r"as AsRef<\[u8\]>>::as_ref\(.*\) -> \[return: (bb\d+), unwind: (bb\d+)\]", term)
                if m:
                    call_bb, unwind_bb = bb, m.group(2)
            facts = {}
            if call_bb is None:
                rep["inconclusive"].append("no call to AsRef::as_ref with an unwind edge in from_owner")
            else:
                # (1) exactly one as_ref call
                ncalls = sum(1 for bb in f.blocks for ln in f.blocks[bb] if "as AsRef<[u8]>>::as_ref(" in ln)
                facts["as_ref called exactly once"] = ncalls == 1
                # (2) the cleanup chain from the unwind edge drops a local of type Bytes (the constructed handle)
                seen, cur, dropped = set(), unwind_bb, []
                while cur and cur not in seen:
                    seen.add(cur)
                    term = f.blocks[cur][-1]
                    dm = re.match(r"drop\((_\d+)\) -> \[return: (bb\d+)", term)
                    if dm:
                        dropped.append(f.ltypes.get(dm.group(1), "?"))
                        cur = dm.group(2)
                        continue
                    gm = re.match(r"goto -> (bb\d+)", term)
                    cur = gm.group(1) if gm else None
                facts["unwind edge of as_ref drops the constructed Bytes"] = any(t.strip() == "bytes::Bytes" for t in dropped)
                # (3) the owner was moved into the heap block and the Bytes was built before the call, and nothing frees
                # the block on the way (no drop / dealloc statement between Box::into_raw and the call)
                pre = []
                for bb in order:
                    pre += f.blocks[bb]
                    if bb == call_bb:
                        break
                txt = "\n".join(pre)
                facts["owner moved into the block and Bytes built before as_ref"] = ("Box::<bytes::Owned<T>>::into_raw" in txt and "bytes::Bytes {" in txt
                                                                                     and not re.search(r"^drop\(|dealloc|from_raw", txt, re.M))
                for k, v in facts.items():
                    if v:
                        rep["discharged"] += 1
                    else:
                        rep["violations"].append(("from_owner: CFG fact does not hold: " + k, "/verif/replays/C03/from_owner_cfg.txt"))
                        os.makedirs("/verif/replays/C03", exist_ok=True)
                        open("/verif/replays/C03/from_owner_cfg.txt", "w").write("from_owner CFG facts: %r\n\n%s\n" % (facts, "\n".join("%s: %s" % (b, f.blocks[b]) for b in order)))
                rep["nontrivial"] += 1
                rep["samples"].append({"from_owner_cfg_facts": facts, "cleanup_drops": dropped})
    rep["wall_s"] = round(time.time() - t0, 1)
    print("[E2-pathq] %s: %d queries, %d/%d obligations, %d violations, %d inconclusive" % (
        prop, rep["queries"], rep["discharged"], rep["obligations"], len(rep["violations"]), len(rep["inconclusive"])), flush=True)
    return [rep]


if __name__ == "__main__":
    reps = run(sys.argv[1], sys.argv[2] if len(sys.argv) > 2 else "quick", 0)
    if "--json" in sys.argv:
        print(json.dumps(reps))
    else:
        for r in reps:
            print(json.dumps(r, indent=1)[:3000])
