#!/bin/bash
# runs every registered quick (or thorough) check sequentially and prints one summary line per property
tier=${1:-quick}
cd "$(dirname "$0")/.."; mkdir -p .work evidence
for p in $(python3 -c "import json; print(' '.join(c['property_id'] for c in json.load(open('MANIFEST.json'))['checks']))"); do
  t0=$(date +%s)
  python3 bin/check $p --tier $tier > .work/all_$p.log 2>&1; rc=$?
  echo "$p exit=$rc $(( $(date +%s) - t0 ))s $(grep -cE '^INCONCLUSIVE' .work/all_$p.log) inconclusive, $(grep -c '^VIOLATION' .work/all_$p.log) violations : $(tail -1 .work/all_$p.log | cut -c1-120)"
done
