#!/bin/bash
# file_seed.sh <out dir of a sub-agent> <sNN> <PROP> <slug> "<needs to manifest>" [demo cargo args]: file + confirm a seeded change
o=$1; n=$2; p=$3; slug=$4; needs=$5; d=/verif/seeded/${n}_$(echo $p | tr A-Z a-z)_$slug
mkdir -p $d; cp $o/patch.diff $o/seed_demo.rs $o/notes.md $d/
python3 - "$d" "$p" "$needs" <<'P'
import json,sys,os
d,p,needs=sys.argv[1:4]
json.dump({"id":os.path.basename(d),"breaks_property":p,"round":4,"needs_to_manifest":needs,"origin":"independent sub-agent (round 4: given only the property text and a scratch worktree)","confirmed":{"by":"(pending)"},"detected_by":"(pending)"},open(d+"/meta.json","w"),indent=1)
P
/verif/bin/confirm_seed.sh $d 2>&1 | tail -4
