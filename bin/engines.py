"""Non-Kani engines plugged into bin/check: E2 (mirsym: MIR skeleton extraction) + E3 (rc11: bounded axiomatic C11)
for C05 / C06; E2 path queries for C13 (panic precedes mutation) and C03 (from_owner cleanup edge)."""
import os, sys, json, subprocess, time

HERE = os.path.dirname(os.path.abspath(__file__))
VERIF = os.path.dirname(HERE)


def run(prop, tier, seed, known):
    reps = []
    if prop in ("C05", "C06"):
        outdir = os.path.join(VERIF, "replays", prop, "rc11")
        os.makedirs(outdir, exist_ok=True)
        for f in os.listdir(outdir):
            os.remove(os.path.join(outdir, f))
        t0 = time.time()
        p = subprocess.run(["python3-vt", os.path.join(HERE, "rc11_run.py"), prop, tier, str(seed), outdir],
                           stdout=subprocess.PIPE, stderr=subprocess.PIPE, text=True)
        last = p.stdout.strip().split("\n")[-1] if p.stdout.strip() else ""
        try:
            rep = json.loads(last)
        except Exception:
            rep = {"engine": "E2-mirsym+E3-rc11", "inconclusive": ["engine crashed: " + (p.stderr[-1500:] or last[-500:])], "violations": [], "queries": 0}
        rep["violations"] = [tuple(v) for v in rep.get("violations", [])]
        rep["wall_s"] = round(time.time() - t0, 1)
        print("[E3] %s: %d programs, %d queries, %d discharged, %d sat, %d inconclusive, %.0fs" % (
            prop, rep.get("programs", 0), rep.get("queries", 0), rep.get("discharged", 0), len(rep["violations"]), len(rep.get("inconclusive", [])), rep["wall_s"]), flush=True)
        reps.append(rep)
    if prop in ("C13", "C03", "C04"):
        p = subprocess.run(["python3-vt", os.path.join(HERE, "pathq.py"), prop, tier, "--json"], stdout=subprocess.PIPE, stderr=subprocess.PIPE, text=True)
        lines = [l for l in p.stdout.strip().split("\n") if l.startswith("[{")]
        try:
            rs = json.loads(lines[-1])
            for l in p.stdout.split("\n"):
                if l.startswith("[E2-pathq]"):
                    print(l, flush=True)
        except Exception:
            rs = [{"engine": "E2-mirsym-pathq", "inconclusive": ["engine crashed: " + (p.stderr[-1500:] or p.stdout[-500:])], "violations": [], "queries": 0}]
        for r in rs:
            r["violations"] = [tuple(v) for v in r.get("violations", [])]
        reps += rs
    return reps
