"""Non-Kani engines (E2 mirsym, E3 rc11) plugged into bin/check."""
def run(prop, tier, seed, known):
    reps = []
    return reps
