#!/usr/bin/env python3
"""E3 `rc11`: bounded axiomatic C11 (RC11 fragment without SC accesses) model checking of litmus programs whose
thread bodies are the atomic skeletons extracted by E2 (mirsym) from the MIR of /repo's working tree.

A litmus program = initial sharing state (representation, number of handles, who owns what) + 2..3 threads, each a
list of API operations.  Every operation is replaced by the *trie of skeleton paths* of the function that implements
it for that representation: atomic accesses with the orderings found in the MIR, guards over the values they read,
and non-atomic effects READ/WRITE/FREE of the buffer, FREE/INIT of control blocks.
Encoding (z3): po from the tries, symbolic rf / mo, RMW atomicity, release sequences, sw, hb = (po u sw)+, coherence,
no-thin-air.  Queries (unsat = holds for EVERY interleaving and EVERY weak-memory outcome of the program):
  Q_uaf    a buffer access that is not hb-before a FREE of the buffer (or a control-block access vs. its FREE)
  Q_race   two conflicting non-atomic accesses (or an atomic access vs. the non-atomic initialisation) hb-unordered
  Q_free2  the buffer (or a control block) is freed twice
  Q_leak   all handles are gone and the buffer was never freed / a control block never freed
  Q_excl   two parties take the buffer without copying
  Q_cnt    a clone/read sees a control block that was already freed (count reached 0 earlier in mo)
"""
import sys, os, time, itertools, json, math
sys.path.insert(0, os.path.dirname(os.path.abspath(__file__)))
import mirsym
from z3 import (Solver, Bool, BoolVal, BitVec, BitVecVal, Int, And, Or, Not, Implies, If, PbEq, PbLe, ZeroExt, ULT, UGT, ULE, UGE, sat, unsat, is_true, simplify)

W = 8  # bits for counter / pointer-id values

REL_ORDS = ("Release", "AcqRel", "SeqCst")
ACQ_ORDS = ("Acquire", "AcqRel", "SeqCst")

DATA_LOC = 100          # the shared `data` cell of a Bytes that several threads clone through one &Bytes
UNPROMOTED = 1          # value of the data cell before promotion (tagged buffer pointer: KIND_VEC)
BLOCK0 = 2              # id (= pointer value, even => KIND_ARC) of the control block that exists initially


class Ev:
    __slots__ = ("tid", "kind", "loc", "ord", "guard", "rval", "wval", "name", "obj", "opidx")

    def __init__(s, tid, kind, loc=None, ord=None, guard=None, rval=None, wval=None, name="", obj=None, opidx=0):
        s.tid, s.kind, s.loc, s.ord, s.guard, s.rval, s.wval, s.name, s.obj, s.opidx = tid, kind, loc, ord, guard, rval, wval, name, obj, opidx

    def reads(s):
        return s.kind in ("R", "U")

    def writes(s):
        return s.kind in ("W", "U", "I")

    def atomic(s):
        return s.kind in ("R", "W", "U", "I")


# ------------------------------------------------------------------------------------------------ skeleton projection
KEEP_NA = ("READ_BUF", "WRITE_BUF", "FREE_BUF", "FREE_CTRL", "ALLOC_CTRL", "TAKE_BUF")


def atom_ids(v, out):
    if isinstance(v, tuple):
        if v and v[0] == "atom":
            out.add(v[1])
        for x in v[1:]:
            atom_ids(x, out)
    return out


def project(paths):
    """keep atomics, guards that depend on atomic reads (or on the plain data value), and the NA effects of interest;
    drop aborting paths; drop a FREE_BUF that follows a TAKE_BUF on the same path (the buffer moved into the result)"""
    out = []
    seen = set()
    for p in paths:
        how = p[-1][1]
        if how in ("abort", "panic"):
            continue
        q = []
        taken = False
        for it in p[:-1]:
            if it[0] == "A":
                q.append(it)
            elif it[0] == "G":
                if atom_ids(it[1], set()) or "dataval" in repr(it[1]):
                    q.append(it)
            elif it[0] == "N" and it[1] in KEEP_NA:
                if taken and it[1] in ("FREE_BUF", "TAKE_BUF", "ALLOC_CTRL", "READ_BUF", "WRITE_BUF"):
                    # after the buffer was taken without copying everything done with it is the exclusive owner's
                    # thread-local business (re-wrapping it, copying inside it, freeing the emptied shell)
                    continue
                if it[1] == "TAKE_BUF":
                    taken = True
                q.append(("N", it[1], it[2]))
        key = repr(q)
        if key not in seen:
            seen.add(key)
            out.append(q)
    return out


# ------------------------------------------------------------------------------------------------ program builder
class Builder:
    """turns thread programs into events + constraints"""

    def __init__(self, skel, init_cnt, promoted, nblocks_hint=0):
        self.skel = skel
        self.s = Solver()
        self.evs = []
        self.po_edges = []         # (i, j) immediate program order edges
        self.cnt = 0
        self.init_cnt = init_cnt
        self.promoted = promoted
        self.next_block = BLOCK0 + 2
        self.blocks = [BLOCK0] if promoted else []
        self.takes = []
        self.handles_gone = []     # per op: Bool "this op released a handle"
        self.desc = []

    def fresh(self, n):
        self.cnt += 1
        return BitVec("%s_%d" % (n, self.cnt), W)

    def add(self, ev):
        self.evs.append(ev)
        return len(self.evs) - 1

    # value of an abstract mirsym value under the current atom environment
    def val(self, v, aenv, dataconst):
        if v[0] == "const":
            return BitVecVal(v[1] % (1 << W), W) if v[1] < (1 << W) else ("big", v[1])
        if v[0] == "atom":
            return aenv[v[1]]["r"]
        if v[0] == "variant":
            return aenv[v[1][1]]["r"] if v[1][0] == "atom" else None
        if v[0] == "dataval":
            return dataconst
        if v[0] == "new":
            return aenv.get(("new", v[1]))
        if v[0] in ("arg",):
            return None
        return None

    def loc_of(self, locv, aenv, dataconst, data_shared):
        """abstract location -> z3 term (BV): the DATA cell (None when the handle's cell is not shared: its loads are
        constants) or CNT of the block a pointer value denotes"""
        v = locv
        has_field = False
        while True:
            if v[0] == "ref":
                v = v[1]
            elif v[0] == "deref":
                v = v[1]
            elif v[0] == "field":
                has_field = True
                v = v[1]
            elif v[0] == "downcast":
                v = v[1]
            else:
                break
        if not has_field:
            # the atomic cell itself was passed in: the handle's `data` AtomicPtr
            return BitVecVal(DATA_LOC, W) if data_shared else None
        if v[0] in ("arg", "local", "unk", "plain", "box", "datacell"):
            return dataconst            # control block passed in / held by the handle: the handle's block
        t = self.val(v, aenv, dataconst)
        if t is not None and not isinstance(t, tuple):
            return t
        return dataconst

    def guard_term(self, g, aenv, dataconst):
        """z3 Bool for a ('G', value, expect) item, or None when it does not depend on modelled values"""
        v, exp = g[1], g[2]
        t = self.bool_or_bv(v, aenv, dataconst)
        if t is None:
            return None
        kind, term = t
        if kind == "bool":
            if exp == 0:
                return Not(term)
            if exp == 1 or (isinstance(exp, tuple) and exp[0] == "ne" and exp[1] == [0]):
                return term
            return None
        if isinstance(exp, int):
            return term == BitVecVal(exp, W)
        return And([term != BitVecVal(k, W) for k in exp[1]])

    def bool_or_bv(self, v, aenv, dataconst):
        if v[0] == "cmp":
            a, b = v[2], v[3]
            ta = self.bv(a, aenv, dataconst)
            tb = self.bv(b, aenv, dataconst)
            if ta is None or tb is None:
                return None
            if isinstance(tb, tuple) or isinstance(ta, tuple):
                # comparison against a constant that does not fit the value width (e.g. usize::MAX >> 1)
                big_right = isinstance(tb, tuple)
                op = v[1]
                if big_right:
                    res = {"Gt": False, "Ge": False, "Lt": True, "Le": True, "Eq": False, "Ne": True}[op]
                else:
                    res = {"Gt": True, "Ge": True, "Lt": False, "Le": False, "Eq": False, "Ne": True}[op]
                return ("bool", BoolVal(res))
            op = v[1]
            return ("bool", {"Eq": ta == tb, "Ne": ta != tb, "Gt": UGT(ta, tb), "Lt": ULT(ta, tb), "Le": ULE(ta, tb), "Ge": UGE(ta, tb)}[op])
        if v[0] == "disc":
            a = v[1]
            if a[0] == "atom" and "ok" in aenv[a[1]]:
                # discriminant of the Result of a compare_exchange: 0 = Ok, 1 = Err
                return ("bv", If(aenv[a[1]]["ok"], BitVecVal(0, W), BitVecVal(1, W)))
            return None
        if v[0] == "cas_ok":
            a = v[1]
            if a[0] == "atom" and "ok" in aenv[a[1]]:
                return ("bool", aenv[a[1]]["ok"])
            return None
        if v[0] == "not":
            t = self.bool_or_bv(v[1], aenv, dataconst)
            if t and t[0] == "bool":
                return ("bool", Not(t[1]))
            return None
        t = self.bv(v, aenv, dataconst)
        if t is None or isinstance(t, tuple):
            return None
        return ("bv", t)

    def bv(self, v, aenv, dataconst):
        if v[0] == "and":
            a = self.bv(v[1], aenv, dataconst)
            if a is None or isinstance(a, tuple):
                return None
            return a & BitVecVal(v[2] % (1 << W), W)
        if v[0] in ("const", "atom", "variant", "dataval", "new"):
            return self.val(v, aenv, dataconst)
        return None

    # ---------------------------------------------------------------------------- one operation of one thread
    def op(self, tid, opidx, fname, last, dataconst, data_shared, label, result_blk=None):
        """instantiate the path trie of `fname`; `last` = list of event indices the op is po-after.
        returns list of (event index list that ends the op, guard) -- simplified: returns all leaf tails"""
        paths = self.skel[fname]
        sel = [Bool("sel_t%d_o%d_p%d" % (tid, opidx, k)) for k in range(len(paths))]
        self.s.add(PbEq([(x, 1) for x in sel], 1))
        trie = {}
        tails = []
        released = []
        for k, p in enumerate(paths):
            aenv = {}
            prev = list(last)
            node = trie
            pathsel = sel[k]
            prefix = ()
            res_blk = None
            for it in p:
                prefix = prefix + (repr(it),)
                if it[0] == "G":
                    continue
                if prefix in node:
                    idx, info = node[prefix]
                    info["sels"].append(pathsel)
                    if it[0] == "A":
                        aenv[it[1]] = info["aenv"]
                        if info.get("res_blk") is not None:
                            res_blk = info["res_blk"]
                    if it[0] == "N" and it[1] == "ALLOC_CTRL":
                        aenv[("new", it[2][1])] = info["blk"]
                    prev = [idx] if idx is not None else prev
                    continue
                info = {"sels": [pathsel]}
                if it[0] == "A":
                    aid, opn, locv, ords, args = it[1], it[2], it[3], it[4], it[5]
                    if opn == "fence":
                        e = Ev(tid, "F", None, ords[0] if ords else "SeqCst", None, None, None, "T%d.%d %s fence[%s]" % (tid, opidx, label, "/".join(ords)), opidx=opidx)
                        idx = self.add(e)
                        for pidx in prev:
                            if pidx is not None:
                                self.po_edges.append((pidx, idx))
                        node[prefix] = (idx, info)
                        aenv[aid] = {"r": self.fresh("fence")}
                        info["aenv"] = aenv[aid]
                        prev = [idx]
                        continue
                    loc = self.loc_of(locv, aenv, dataconst, data_shared)
                    r = self.fresh("r")
                    succ = ords[0] if ords else "Relaxed"
                    name = "T%d.%d %s %s[%s]" % (tid, opidx, label, opn, "/".join(ords))
                    if loc is None:
                        # a load of the handle's own (unshared) data cell: a constant, no event
                        self.s.add(r == dataconst)
                        aenv[aid] = {"r": r}
                        # no event: later paths sharing this prefix must keep ALL their program-order predecessors
                        node[prefix] = (None, {"sels": info["sels"], "aenv": aenv[aid]})
                        continue
                    if opn == "load":
                        e = Ev(tid, "R", loc, succ, None, r, None, name, opidx=opidx)
                    elif opn == "store":
                        wv = self.bv(args[0], aenv, dataconst) if args else None
                        e = Ev(tid, "W", loc, succ, None, None, wv if wv is not None else self.fresh("w"), name, opidx=opidx)
                    elif opn in ("fetch_add", "fetch_sub"):
                        d = self.bv(args[0], aenv, dataconst) if args else BitVecVal(1, W)
                        e = Ev(tid, "U", loc, succ, None, r, (r + d) if opn == "fetch_add" else (r - d), name, opidx=opidx)
                        if opn == "fetch_add":
                            res_blk = loc          # the new handle is counted on this block
                            info["res_blk"] = loc
                    elif opn.startswith("compare_exchange"):
                        exp = self.bv(args[0], aenv, dataconst) if args else None
                        new = self.bv(args[1], aenv, dataconst) if len(args) > 1 else None
                        if exp is None:
                            exp = BitVecVal(UNPROMOTED, W)   # the stale snapshot of the promotion CAS
                        if new is None:
                            new = self.fresh("casnew")
                        ok = Bool("casok_%d" % self.cnt)
                        self.s.add(ok == (r == exp))
                        # one event whose kind depends on the outcome: modelled as U when ok (wval=new) else a read
                        e = Ev(tid, "CAS", loc, (succ, ords[1] if len(ords) > 1 else "Relaxed"), None, r, new, name, opidx=opidx)
                        e.obj = ok
                        aenv[aid] = {"r": r, "ok": ok}
                        # outcome of this path (from its guard on the Result)
                        for g2 in p:
                            if g2[0] == "G" and g2[1][0] in ("disc", "cas_ok") and g2[1][1] == ("atom", aid):
                                okpath = (g2[2] == 0) if g2[1][0] == "disc" else (g2[2] != 0)
                                if okpath:
                                    res_blk = new
                    else:
                        raise mirsym.Unknown("atomic op " + opn)
                    if aid not in aenv:
                        aenv[aid] = {"r": r}
                    idx = self.add(e)
                    info["aenv"] = aenv[aid]
                else:
                    kind, obj = it[1], it[2]
                    blk = None
                    if kind == "ALLOC_CTRL":
                        blk = BitVecVal(self.next_block, W)
                        self.blocks.append(self.next_block)
                        self.next_block += 2
                        aenv[("new", obj[1])] = blk
                        info["blk"] = blk
                    o = None
                    if kind == "FREE_CTRL":
                        o = self.bv(obj, aenv, dataconst) if obj[0] in ("new", "atom", "variant", "dataval") else None
                        if o is None and obj[0] == "box":
                            o = self.bv(obj[1], aenv, dataconst) if obj[1][0] in ("new", "atom", "variant", "dataval") else None
                        if o is None:
                            o = dataconst
                    e = Ev(tid, "N:" + kind, None, None, None, None, None, "T%d.%d %s %s" % (tid, opidx, label, kind), obj=(o if kind == "FREE_CTRL" else blk), opidx=opidx)
                    idx = self.add(e)
                    if kind == "ALLOC_CTRL":
                        # the (non-atomic) initialisation of the new block's counter, visible to later atomic accesses
                        initv = obj[2] if len(obj) > 2 and obj[2] is not None else 1
                        for pidx in prev:
                            if pidx is not None:
                                self.po_edges.append((pidx, idx))
                        w = Ev(tid, "W", blk, "Relaxed", None, None, BitVecVal(initv, W), "T%d.%d %s init new block count=%d" % (tid, opidx, label, initv), opidx=opidx)
                        widx = self.add(w)
                        self.po_edges.append((idx, widx))
                        info["extra"] = widx
                        node[prefix] = (widx, info)
                        info["first"] = idx
                        prev = [widx]
                        continue
                for pidx in prev:
                    if pidx is not None:
                        self.po_edges.append((pidx, idx))
                node[prefix] = (idx, info)
                prev = [idx]
            # guards of this path constrain the values when the path is selected
            for it in p:
                if it[0] == "G":
                    g = self.guard_term(it, aenv, dataconst)
                    if g is not None:
                        self.s.add(Implies(pathsel, g))
            tails.append((prev, pathsel))
            if result_blk is not None and res_blk is not None:
                self.s.add(Implies(pathsel, result_blk == res_blk))
        # event guards: an event is executed iff one of the paths through it is selected
        for prefix, (idx, info) in trie.items():
            if idx is None:
                continue
            if self.evs[idx].guard is None:
                self.evs[idx].guard = Or(info["sels"])
            if "first" in info and self.evs[info["first"]].guard is None:
                self.evs[info["first"]].guard = Or(info["sels"])
        return tails

    def plain(self, tid, opidx, kind, last, label):
        e = Ev(tid, "N:" + kind, None, None, BoolVal(True), None, None, "T%d.%d %s %s" % (tid, opidx, label, kind), opidx=opidx)
        idx = self.add(e)
        for p in last:
            self.po_edges.append((p, idx))
        return idx


# ------------------------------------------------------------------------------------------------ RC11 core
def encode(b, init_events):
    s = b.s
    evs = b.evs
    n = len(evs)
    G = [e.guard if e.guard is not None else BoolVal(True) for e in evs]
    # CAS events: effective kind
    def is_write(i):
        e = evs[i]
        if e.kind == "CAS":
            return e.obj
        return BoolVal(e.writes())
    def is_read(i):
        return BoolVal(evs[i].kind in ("R", "U", "CAS"))
    def wval(i):
        return evs[i].wval
    def rel(i):
        e = evs[i]
        if e.kind == "CAS":
            return BoolVal(e.ord[0] in REL_ORDS)
        return BoolVal(e.ord in REL_ORDS)
    def acq(i):
        e = evs[i]
        if e.kind == "CAS":
            return If(e.obj, BoolVal(e.ord[0] in ACQ_ORDS), BoolVal(e.ord[1] in ACQ_ORDS))
        return BoolVal(e.ord in ACQ_ORDS)
    A = [i for i in range(n) if evs[i].kind in ("R", "W", "U", "I", "CAS")]
    Wr = [i for i in A if evs[i].kind in ("W", "U", "I", "CAS")]
    Rd = [i for i in A if evs[i].kind in ("R", "U", "CAS")]
    # program order (transitive, from immediate edges)
    po = [[False] * n for _ in range(n)]
    succ = {}
    for (i, j) in b.po_edges:
        succ.setdefault(i, set()).add(j)
    for i in range(n):
        seen, stack = set(), list(succ.get(i, ()))
        while stack:
            x = stack.pop()
            if x in seen:
                continue
            seen.add(x)
            po[i][x] = True
            stack += list(succ.get(x, ()))
    for i0 in init_events:
        for j in range(n):
            if j not in init_events:
                po[i0][j] = True
    sameloc = lambda i, j: evs[i].loc == evs[j].loc
    # rf
    rf = {}
    for r in Rd:
        cands = []
        for w in Wr:
            if w == r:
                continue
            bvar = Bool("rf_%d_%d" % (w, r))
            rf[(w, r)] = bvar
            cands.append(bvar)
            s.add(Implies(bvar, And(G[w], G[r], is_write(w), sameloc(w, r), wval(w) == evs[r].rval)))
        s.add(Implies(G[r], PbEq([(c, 1) for c in cands], 1)))
        s.add(Implies(Not(G[r]), And([Not(c) for c in cands])))
    RF = lambda w, r: rf.get((w, r), BoolVal(False))
    # mo: one global position per write, compared only on equal locations
    mo = {w: Int("mo_%d" % w) for w in Wr}
    s.add([mo[w] >= 0 for w in Wr])
    for i, j in itertools.combinations(Wr, 2):
        s.add(mo[i] != mo[j])
    MO = lambda i, j: And(sameloc(i, j), mo[i] < mo[j], is_write(i), is_write(j), G[i], G[j])
    for i in init_events:
        if i in mo:
            for j in Wr:
                if j != i:
                    s.add(Implies(sameloc(i, j), mo[i] < mo[j]))
    # RMW atomicity: an update reads its immediate mo-predecessor
    for u in Rd:
        if evs[u].kind not in ("U", "CAS"):
            continue
        for w in Wr:
            if w == u:
                continue
            upd = is_write(u) if evs[u].kind == "CAS" else BoolVal(True)
            s.add(Implies(And(RF(w, u), upd), mo[w] < mo[u]))
            for k in Wr:
                if k in (w, u):
                    continue
                s.add(Implies(And(RF(w, u), upd, G[k], is_write(k), sameloc(k, u)), Not(And(mo[w] < mo[k], mo[k] < mo[u]))))
    # release sequences rs[a][w]: w reachable from a through (rf; rmw)* on the same location
    rs = {(a, a): BoolVal(True) for a in Wr}
    nrmw = sum(1 for e in evs if e.kind in ("U", "CAS"))
    # a release sequence can run through every RMW of the program: iterate to the fixed point (bounded by their number)
    for _ in range(nrmw):
        new = dict(rs)
        for a in Wr:
            for w in Wr:
                if w == a or evs[w].kind not in ("U", "CAS"):
                    continue
                terms = [And(rs[(a, u)], RF(u, w), is_write(w)) for u in Wr if u != w and (a, u) in rs]
                if terms:
                    new[(a, w)] = Or([rs.get((a, w), BoolVal(False))] + terms)
        rs = new
    # sw  (RC11: [rel]; ([F]; po)?; rs; rf; [R]; (po; [F])?; [acq])
    sw = {}
    Frel = [i for i in range(n) if evs[i].kind == "F" and evs[i].ord in REL_ORDS]
    Facq = [i for i in range(n) if evs[i].kind == "F" and evs[i].ord in ACQ_ORDS]
    for a in Wr:
        if evs[a].kind == "I":
            continue
        for r in Rd:
            if a == r or evs[a].tid == evs[r].tid:
                continue
            terms = [And(rs[(a, w)], RF(w, r)) for w in Wr if w != r and (a, w) in rs]
            if not terms:
                continue
            core = And(is_write(a), G[a], G[r], Or(terms))
            sw[(a, r)] = And(rel(a), acq(r), core)
            srcs = [(a, rel(a))] + [(f, BoolVal(True)) for f in Frel if po[f][a]]
            dsts = [(r, acq(r))] + [(f, BoolVal(True)) for f in Facq if po[r][f]]
            for (x, cx) in srcs:
                for (y, cy) in dsts:
                    if (x, y) == (a, r):
                        continue
                    t = And(cx, cy, core)
                    sw[(x, y)] = Or(sw[(x, y)], t) if (x, y) in sw else t
    # hb = (po u sw)+ by log-squaring over named intermediates
    hb = [[None] * n for _ in range(n)]
    for i in range(n):
        for j in range(n):
            base = []
            if po[i][j]:
                base.append(BoolVal(True))
            if (i, j) in sw:
                base.append(sw[(i, j)])
            hb[i][j] = And(G[i], G[j], Or(base)) if base else BoolVal(False)
    rounds = max(1, math.ceil(math.log2(max(2, n))))
    for rd in range(rounds):
        nm = [[Bool("hb%d_%d_%d" % (rd, i, j)) for j in range(n)] for i in range(n)]
        for i in range(n):
            for j in range(n):
                if i == j:
                    s.add(nm[i][j] == Or([And(hb[i][k], hb[k][i]) for k in range(n) if k != i] + [hb[i][i]]))
                else:
                    s.add(nm[i][j] == Or([hb[i][j]] + [And(hb[i][k], hb[k][j]) for k in range(n) if k not in (i, j)]))
        hb = nm
    for i in range(n):
        s.add(Not(hb[i][i]))
    # coherence
    for w in Wr:
        for w2 in Wr:
            if w == w2:
                continue
            s.add(Implies(And(hb[w][w2], is_write(w), is_write(w2), sameloc(w, w2)), mo[w] < mo[w2]))          # CoWW
            for r in Rd:
                if r == w2 or r == w:
                    continue
                s.add(Implies(And(RF(w, r), hb[r][w2], is_write(w2), sameloc(w, w2)), mo[w] < mo[w2]))            # CoRW
                s.add(Implies(And(RF(w, r), hb[w2][r], is_write(w2), G[w2], sameloc(w, w2)), Not(mo[w] < mo[w2])))  # CoWR
    for (w, r), bvar in rf.items():
        s.add(Implies(bvar, Not(hb[r][w])))
    for r in Rd:
        for r2 in Rd:
            if r == r2:
                continue
            for w in Wr:
                for w2 in Wr:
                    if w == w2 or w in (r,) or w2 in (r2,):
                        continue
                    if (w, r) in rf and (w2, r2) in rf:
                        s.add(Implies(And(rf[(w, r)], rf[(w2, r2)], hb[r][r2], sameloc(w, w2)), Not(mo[w2] < mo[w])))   # CoRR
    # no thin air: po u rf acyclic
    ts = [Int("ts_%d" % i) for i in range(n)]
    for i in range(n):
        for j in range(n):
            if po[i][j]:
                s.add(ts[i] < ts[j])
    for (w, r), bvar in rf.items():
        s.add(Implies(bvar, ts[w] < ts[r]))
    return G, hb, rf, mo


def describe_model(b, m, G, rf):
    lines = []
    for i, e in enumerate(b.evs):
        if is_true(m.eval(G[i], model_completion=True)):
            extra = ""
            if e.rval is not None:
                extra += " reads=%s" % m.eval(e.rval, model_completion=True)
            if e.kind == "CAS":
                extra += " ok=%s" % m.eval(e.obj, model_completion=True)
            if e.loc is not None:
                extra += " loc=%s" % m.eval(e.loc, model_completion=True)
            src = [w for (w, r), bv in rf.items() if r == i and is_true(m.eval(bv, model_completion=True))]
            if src:
                extra += " rf<-e%d" % src[0]
            lines.append("e%-2d %s%s" % (i, e.name, extra))
    return lines
