#!/usr/bin/env python3
"""E2 `mirsym`: path-wise symbolic walk of the nightly MIR dump of /repo (regenerated on every run).

extract(entry) -> list of paths; a path is a list of items
  ('A', id, op, loc, ords, args)      atomic access: op in load/store/fetch_add/fetch_sub/compare_exchange/swap;
                                      loc = abstract value of the referenced cell; ords = [succ(, fail)]; args = values
  ('G', value, expect)                branch taken: abstract value `value` equals `expect` (int) or ('ne', [ints])
  ('N', kind, obj)                    non-atomic effect: READ_BUF / WRITE_BUF / FREE_BUF / FREE_CTRL / ALLOC_CTRL /
                                      TAKE_BUF / PLAIN_R / PLAIN_W with the abstract object it acts on
  ('E', how)                          path end: return / abort / panic / unreachable
Crate-local callees are inlined; calls into core/alloc are matched against MODELS; anything else raises Unknown
(the run is then inconclusive - constructs are never guessed).
"""
import re, os, sys, subprocess, shutil, tempfile, json

class Unknown(Exception):
    pass

# ----------------------------------------------------------------------------------------------- MIR dump
def dump_mir(repo, extra_rustc=()):
    scratch = tempfile.mkdtemp(prefix="mirsym_")
    try:
        for f in ("Cargo.toml", "Cargo.lock", "src"):
            s = os.path.join(repo, f)
            if os.path.isdir(s):
                shutil.copytree(s, os.path.join(scratch, f))
            else:
                shutil.copy(s, os.path.join(scratch, f))
        env = dict(os.environ)
        env["CARGO_NET_OFFLINE"] = "true"
        env["CARGO_TARGET_DIR"] = os.path.join(scratch, "target")
        env.pop("RUSTFLAGS", None)
        cmd = ["cargo", "+nightly", "rustc", "--offline", "--lib", "--", "-Zunpretty=mir", "-C", "debug-assertions=off"] + list(extra_rustc)
        p = subprocess.run(cmd, cwd=scratch, env=env, stdout=subprocess.PIPE, stderr=subprocess.PIPE, text=True)
        if p.returncode != 0 or len(p.stdout) < 10000:
            raise Unknown("MIR dump failed: " + p.stderr[-2000:])
        return p.stdout
    finally:
        shutil.rmtree(scratch, ignore_errors=True)

# ----------------------------------------------------------------------------------------------- parse
FN_RE = re.compile(r"^fn (.+?)\((.*?)\) -> (.+?) \{\n(.*?)^\}\n", re.S | re.M)
BB_RE = re.compile(r"^    (bb\d+)( \(cleanup\))?: \{\n(.*?)^    \}\n", re.S | re.M)

class Func:
    pass

def split_top(s, sep=","):
    out, d, cur = [], 0, ""
    i = 0
    while i < len(s):
        c = s[i]
        if c in "([{<":
            d += 1
        elif c in ")]}>":
            if not (c == ">" and i > 0 and s[i - 1] in "-="):
                d -= 1
        if c == sep and d == 0:
            out.append(cur.strip())
            cur = ""
        else:
            cur += c
        i += 1
    if cur.strip():
        out.append(cur.strip())
    return out

def parse(mir):
    funcs = {}
    for m in FN_RE.finditer(mir):
        name, params, ret, body = m.group(1).strip(), m.group(2), m.group(3).strip(), m.group(4)
        f = Func()
        f.name = name
        f.ptypes = {}
        for p in split_top(params):
            pm = re.match(r"(_\d+): (.*)$", p, re.S)
            if pm:
                f.ptypes[pm.group(1)] = pm.group(2)
        f.nparams = len(f.ptypes)
        f.ltypes = dict(f.ptypes)
        for lm in re.finditer(r"let (?:mut )?(_\d+): (.*?);\n", body):
            f.ltypes[lm.group(1)] = lm.group(2)
        f.blocks = {}
        for bm in BB_RE.finditer(body):
            lines = [l.strip() for l in bm.group(3).strip().split("\n") if l.strip()]
            f.blocks[bm.group(1)] = lines
        if name not in funcs:  # first occurrence wins (promoted / const duplicates follow)
            funcs[name] = f
    consts = {}
    for m in re.finditer(r"^const ([\w:]+): usize = const (\w+);", mir, re.M):
        consts[m.group(1)] = m.group(2)
    for m in re.finditer(r"^const ([\w:]+): usize = \{\n(?:(?!^\}).)*?_0 = const (\d+_usize);", mir, re.S | re.M):
        consts.setdefault(m.group(1), m.group(2))
    return funcs, consts

# ----------------------------------------------------------------------------------------------- abstract values
# ('const', n) ('ord', X) ('atom', id) ('cmp', op, a, b) ('and', a, n) ('not', a) ('arith', op, a, b)
# ('ref', place) ('arg', fn, i) ('unk', text) ('new', id) ('variant', v, name) ('disc', v) ('plain', place) ('agg', name, fields)
# place: ('local', fnid, n) ('deref', value) ('field', place, idx, ty)

PURE = re.compile(
    r"^(core::ptr::|core::num::|core::cmp::|core::alloc::|Layout::|NonNull::|Option::|Result::|core::intrinsics::|core::hint::|"
    r"core::mem::(replace|swap|size_of|align_of|transmute|ManuallyDrop|MaybeUninit)|ManuallyDrop::|core::mem::ManuallyDrop|"
    r"Vec::<u8>::(as_mut_ptr|as_ptr|capacity|len|set_len|new|with_capacity|reserve|extend_from_slice|into_boxed_slice)|"
    r"<.* as Deref(Mut)?>::deref(_mut)?|<.* as core::ops::Deref(Mut)?>::deref(_mut)?|core::slice::|"
    r"Box::<\[u8\]>::|Box::<.*>::(into_raw|leak)|<.* as (Clone|Default|Into<.*>|From<.*>|AsRef<.*>)>::|core::convert::|"
    r"usize::|isize::|bool::|core::ops::|std::cmp::|core::panicking::assert_failed|<usize as |core::option::|core::result::|"
    r"Atomic::<.*>::(new|into_inner)|Unique::|alloc::vec::|alloc::raw_vec::|core::str::|<\[u8\]>::|slice::<impl \[u8\]>::(len|as_ptr|is_empty)|"
    r"<.*Range.* as |core::fmt::|<BytesMut as |<bytes::Bytes as (Deref|AsRef|Borrow)|Bytes::with_vtable|bytes::Bytes::len|"
    r"Arguments::|core::fmt::rt::|Argument::|<.* as (buf::buf_impl::)?Buf>::(remaining|chunk|has_remaining)$|<.* as (buf::buf_mut::)?BufMut>::remaining_mut$|BytesMut::(len|capacity|is_empty)$|bytes::Bytes::(len|is_empty)$|std::ptr::|core::ptr::mut_ptr::|core::ptr::const_ptr::|core::ptr::non_null::|null_mut::<|null::<|without_provenance|core::clone::|<\*mut .* as |<\*const .* as )")

class Walker:
    def __init__(self, funcs, consts, max_paths=400):
        self.funcs, self.consts = funcs, consts
        self.paths = []
        self.max_paths = max_paths
        self.next_id = [0]
        self.inlined = set()
        self.models_used = set()

    def fresh(self):
        self.next_id[0] += 1
        return self.next_id[0]

    # ---------------------------------------------------------------- values
    def const_val(self, txt):
        txt = txt.strip()
        m = re.match(r"^(-?\d+)_(usize|isize|u8|u16|u32|u64|i32|i64|u128)$", txt)
        if m:
            return ("const", int(m.group(1)))
        if txt in ("true", "false"):
            return ("const", 1 if txt == "true" else 0)
        if txt in self.consts:
            return self.const_val(self.consts[txt].replace("const ", ""))
        m = re.match(r"^(core::)?usize::MAX$", txt)
        if m:
            return ("const", 2 ** 64 - 1)
        return ("unk", "const " + txt)

    def place(self, txt, env, fid):
        txt = txt.strip()
        m = re.fullmatch(r"_(\d+)", txt)
        if m:
            return ("local", fid, int(m.group(1)))
        if txt.startswith("(*") and txt.endswith(")") and self._balanced(txt[2:-1]):
            inner = txt[2:-1]
            return ("deref", self.operand(inner, env, fid))
        m = re.fullmatch(r"\((.+)\.(\d+): (.+)\)", txt, re.S)
        if m and self._balanced(m.group(1)):
            return ("field", self.place(m.group(1), env, fid), int(m.group(2)), m.group(3))
        m = re.fullmatch(r"\((.+) as (\w+)\)", txt)
        if m:
            return ("downcast", self.place(m.group(1), env, fid), m.group(2))
        raise Unknown("place: " + txt)

    def _balanced(self, s):
        d = 0
        for c in s:
            if c == "(":
                d += 1
            elif c == ")":
                d -= 1
                if d < 0:
                    return False
        return d == 0

    @staticmethod
    def store_version(events):
        """number of plain stores through pointers so far on this path: two plain reads of one place denote the same value only
        when no such store lies between them (the version is part of the value, so a snapshot taken earlier keeps its identity)"""
        return sum(1 for e in events if e[0] == "N" and e[1] in ("PLAIN_W",))

    def read_place(self, pl, env, events):
        if pl[0] == "local":
            return env.get(pl, ("unk", "uninit %r" % (pl,)))
        if pl[0] == "deref":
            v = pl[1]
            if v[0] == "ref":
                return self.read_place(v[1], env, events)
            if v[0] == "datacell":
                return ("dataval", v[1])
            return ("plain", pl, self.store_version(events))
        if pl[0] == "field":
            base = pl[1]
            if base[0] == "downcast":
                src = self.read_place(base[1], env, events)
                return ("variant", src, base[2])
            b = self.read_place(base, env, events) if base[0] != "deref" else None
            if base[0] == "deref" and base[1][0] == "ref" and base[1][1][0] == "local":
                inner = env.get(base[1][1])
                if inner is not None and inner[0] == "agg" and pl[2] < len(inner[2]):
                    return inner[2][pl[2]]
            if b is not None and b[0] == "agg" and pl[2] < len(b[2]):
                return b[2][pl[2]]
            if b is not None and b[0] == "box":
                return b  # Box -> Unique -> NonNull -> pointer: transparent
            if b is not None and b[0] in ("new", "atom", "arg", "dataval", "variant", "box"):
                return b  # wrapper structs around a pointer (Unique / NonNull): transparent
            # memory read through a pointer: a plain (non-atomic) field access
            if base[0] == "deref":
                ty = pl[3]
                if "Atomic<" not in ty:
                    events.append(("N", "PLAIN_R", ("fieldof", base[1], pl[2])))
                return ("plain", ("field", base, pl[2]), self.store_version(events))
            return ("unk", "field %r" % (pl,))
        if pl[0] == "downcast":
            return self.read_place(pl[1], env, events)
        return ("unk", "place")

    def operand(self, txt, env, fid, events=None):
        txt = txt.strip()
        events = events if events is not None else []
        for pre in ("copy ", "move ", "no_retag "):
            if txt.startswith(pre):
                return self.operand(txt[len(pre):], env, fid, events)
        if txt.startswith("const "):
            t = txt[6:]
            if t.startswith("ZeroSized"):
                return ("unk", "zst")
            return self.const_val(t)
        return self.read_place(self.place(txt, env, fid), env, events)

    def rvalue(self, txt, env, fid, events):
        txt = txt.strip()
        m = re.fullmatch(r"core::sync::atomic::Ordering::(\w+)", txt)
        if m:
            return ("ord", m.group(1))
        m = re.fullmatch(r"(&raw (?:mut|const) |&mut |&)(.+)", txt, re.S)
        if m:
            pl = self.place(m.group(2), env, fid)
            if pl[0] == "deref" and isinstance(pl[1], tuple) and pl[1][0] == "ref":
                return pl[1]  # reborrow &*r == r
            return ("ref", pl)
        m = re.fullmatch(r"(Ne|Eq|Gt|Lt|Le|Ge)\((.+)\)", txt)
        if m:
            a, b = split_top(m.group(2))
            return ("cmp", m.group(1), self.operand(a, env, fid, events), self.operand(b, env, fid, events))
        m = re.fullmatch(r"(BitAnd|BitOr|Add|Sub|Mul|Shl|Shr|AddWithOverflow|SubWithOverflow|Offset|BitXor|Div|Rem|AddUnchecked|SubUnchecked|ShlUnchecked|ShrUnchecked|MulUnchecked)\((.+)\)", txt)
        if m:
            a, b = split_top(m.group(2))
            va, vb = self.operand(a, env, fid, events), self.operand(b, env, fid, events)
            if m.group(1) == "BitAnd" and vb[0] == "const":
                return ("and", va, vb[1])
            return ("arith", m.group(1), va, vb)
        m = re.fullmatch(r"Not\((.+)\)", txt)
        if m:
            return ("not", self.operand(m.group(1), env, fid, events))
        m = re.fullmatch(r"discriminant\((.+)\)", txt)
        if m:
            return ("disc", self.read_place(self.place(m.group(1), env, fid), env, events))
        m = re.fullmatch(r"(.+) as (.+?) \((\w+)\)", txt, re.S)
        if m:
            return self.operand(m.group(1), env, fid, events)  # casts are transparent
        m = re.fullmatch(r"([\w:<>, @#{}./\[\]'-]+?) \{(.*)\}", txt, re.S)
        if m and not txt.startswith("const"):
            fields = []
            for part in split_top(m.group(2)):
                if ":" in part:
                    fields.append(self.operand(part.split(":", 1)[1], env, fid, events))
            return ("agg", m.group(1).strip(), fields)
        m = re.fullmatch(r"[\w:<>(), &'\[\]]+?::(Ok|Err|Some|None)(?:\((.*)\))?", txt, re.S)
        if m and not txt.startswith(("copy ", "move ", "const ")):
            inner = m.group(2)
            return ("agg", m.group(1), [self.operand(a, env, fid, events) for a in split_top(inner)] if inner else [])
        m = re.fullmatch(r"\[.*\]|\(.*\)", txt, re.S)
        if m and not txt.startswith("(*") and not re.match(r"^\(.+\.\d+: ", txt) and not re.match(r"^\(.+ as \w+\)", txt):
            return ("unk", "tuple/array")
        m = re.fullmatch(r"(PtrMetadata|Len|UnaryOp|NullaryOp|SizeOf|AlignOf|CopyForDeref|ShallowInitBox|Neg|WrapUnsafeBinder)\(.*\)", txt, re.S)
        if m:
            return ("unk", txt[:30])
        return self.operand(txt, env, fid, events)

    # ---------------------------------------------------------------- calls
    def resolve(self, callee):
        """crate-local function for a callee text, or None"""
        base = re.sub(r"::<[^()]*>$", "", callee).strip()
        base2 = re.sub(r"::<.*?>(?=::|$)", "", callee).strip()
        for k in (callee, base, base2):
            if k in self.funcs:
                return self.funcs[k]
        # methods printed as `bytes::<impl at ...>::name` are called as `Type::name` / `<Type as Trait>::name`
        m = re.match(r"^(?:bytes::)?(Bytes|BytesMut|bytes_mut::Shared|bytes::Shared)::(\w+)", base2)
        if m:
            ty, meth = m.group(1), m.group(2)
            mod = "bytes_mut" if ty in ("BytesMut", "bytes_mut::Shared") else "bytes"
            want = {"Bytes": "&bytes::Bytes|&mut bytes::Bytes|bytes::Bytes", "BytesMut": "&mut BytesMut|&BytesMut|BytesMut",
                    "bytes_mut::Shared": "&bytes_mut::Shared", "bytes::Shared": "&bytes::Shared"}[ty]
            for name, f in self.funcs.items():
                if name.startswith(mod + "::<impl at") and name.endswith("::" + meth):
                    return f
        m = re.match(r"^<(\S+?) as ([\w:<>() ]+)>::(\w+)", base2)
        if m and ("Bytes" in m.group(1) or "Shared" in m.group(1) or "Atomic" in m.group(1)):
            meth = m.group(3)
            ty = m.group(1)
            cands = []
            for name, f in self.funcs.items():
                if "<impl at" in name and name.endswith("::" + meth) and f.nparams >= 1:
                    p1 = f.ptypes.get("_1", "")
                    key = ty.split("::")[-1].split("<")[0]
                    if key in p1:
                        cands.append(f)
            if len(cands) == 1:
                return cands[0]
        return None

    def closure_for(self, callee):
        m = re.search(r"\{closure@([^}]+)\}", callee)
        if not m:
            return None
        tag = m.group(1)
        for name, f in self.funcs.items():
            if "{closure#" in name and tag in f.ptypes.get("_1", ""):
                return f
        return None

    def classify_drop(self, ty):
        ty = ty or ""
        if "Box<bytes::Shared>" in ty or "Box<bytes_mut::Shared>" in ty or "Box<Shared>" in ty:
            return ["FREE_BUF", "FREE_CTRL"]
        if re.search(r"\bVec<u8>", ty):
            return ["FREE_BUF"]
        return None

    # ---------------------------------------------------------------- walking
    def run(self, entry, argvals=None):
        f = self.funcs.get(entry)
        if f is None:
            raise Unknown("no MIR for function " + entry)
        self.paths = []
        env = {}
        fid = self.fresh()
        for i in range(1, f.nparams + 1):
            av = (argvals or {}).get(i, ("arg", entry, i))
            if av[0] == "byref_agg":
                # a reference to a handle whose fields are known abstractly (e.g. BytesMut{.., data: <handle's data value>})
                env[("local", fid, 1000 + i)] = ("agg", av[1], list(av[2]))
                av = ("ref", ("local", fid, 1000 + i))
            env[("local", fid, i)] = av
        self.walk(f, fid, "bb0", env, [], [], depth=0, visits={})
        return self.paths

    def finish(self, events, how):
        if len(self.paths) >= self.max_paths:
            raise Unknown("too many paths")
        self.paths.append(events + [("E", how)])

    def walk(self, f, fid, bb, env, events, stack, depth, visits):
        key = (fid, bb)
        visits = dict(visits)
        visits[key] = visits.get(key, 0) + 1
        if visits[key] > 2:
            # loops are not expected in the ref-count functions; copy loops etc. are behind models
            events = events + [("N", "LOOP_CUT", f.name + ":" + bb)]
            return self.ret(("unk", "loop"), env, events, stack, depth, visits)
        if bb not in f.blocks:
            raise Unknown("missing block %s in %s" % (bb, f.name))
        lines = f.blocks[bb]
        env = dict(env)
        events = list(events)
        for ln in lines[:-1]:
            self.stmt(ln, f, fid, env, events)
        self.term(lines[-1], f, fid, env, events, stack, depth, visits)

    def stmt(self, ln, f, fid, env, events):
        ln = ln.rstrip(";")
        if ln.startswith(("StorageLive", "StorageDead", "nop", "FakeRead", "PlaceMention", "Retag", "AscribeUserType", "Coverage", "ConstEvalCounter", "Deinit", "BackwardIncompatibleDropHint")):
            return
        if ln.startswith("assume(") or ln.startswith("Assume("):
            return
        m = re.match(r"^(.+?) = (.+)$", ln, re.S)
        if not m:
            raise Unknown("statement: " + ln)
        lhs, rhs = m.group(1).strip(), m.group(2).strip()
        val = self.rvalue(rhs, env, fid, events)
        pl = self.place(lhs, env, fid)
        if pl[0] == "local":
            env[pl] = val
        elif pl[0] == "field" and pl[1][0] == "local":
            cur = env.get(pl[1])
            if cur and cur[0] == "agg":
                flds = list(cur[2])
                while len(flds) <= pl[2]:
                    flds.append(("unk", "f"))
                flds[pl[2]] = val
                env[pl[1]] = ("agg", cur[1], flds)
        else:
            # store through a pointer / reference: a plain write unless it targets a local aggregate
            root = pl
            while root[0] in ("field", "downcast"):
                root = root[1]
            if root[0] == "deref":
                tgt = root[1]
                if tgt[0] == "ref" and tgt[1][0] == "local":
                    return
                events.append(("N", "PLAIN_W", ("through", tgt)))

    def ret(self, val, env, events, stack, depth, visits):
        if not stack:
            self.finish(events, "return")
            return
        (cf, cfid, cenv, dest, nxt) = stack[-1]
        cenv = dict(cenv)
        if dest is not None:
            cenv[dest] = val
        self.walk(cf, cfid, nxt, cenv, events, stack[:-1], depth - 1, visits)

    def term(self, ln, f, fid, env, events, stack, depth, visits):
        ln = ln.rstrip(";")
        if ln == "return":
            return self.ret(env.get(("local", fid, 0), ("unk", "ret")), env, events, stack, depth, visits)
        if ln in ("unreachable", "resume", "unwind terminate(abi)", "unwind terminate(cleanup)") or ln.startswith("unwind terminate"):
            return  # dead / unwinding path: dropped
        m = re.match(r"^goto -> (bb\d+)$", ln)
        if m:
            return self.walk(f, fid, m.group(1), env, events, stack, depth, visits)
        m = re.match(r"^switchInt\((.+?)\) -> \[(.+)\]$", ln)
        if m:
            v = self.operand(m.group(1), env, fid, events)
            targets = []
            for part in split_top(m.group(2)):
                k, t = part.split(":")
                targets.append((k.strip(), t.strip()))
            known = [int(k) for k, _ in targets if k != "otherwise"]
            cv = self.simplify(v)
            # a condition over exactly the same value (same versioned reads) was decided earlier on this path: follow that outcome only
            prev = None
            if cv[0] != "const" and "dataval" not in repr(cv):
                for e in events:
                    if e[0] == "G" and e[1] == cv:
                        prev = e[2]
            for k, t in targets:
                if prev is not None:
                    if k == "otherwise":
                        ok = (isinstance(prev, tuple) and all(x in prev[1] for x in known)) or (isinstance(prev, int) and prev not in known)
                    else:
                        ok = (isinstance(prev, int) and prev == int(k)) or (isinstance(prev, tuple) and int(k) not in prev[1])
                    if not ok:
                        continue
                if k == "otherwise":
                    if cv[0] == "const" and cv[1] in known:
                        continue
                    g = ("G", cv, ("ne", known))
                else:
                    if cv[0] == "const" and cv[1] != int(k):
                        continue
                    g = ("G", cv, int(k))
                ev2 = events if cv[0] == "const" else events + [g]
                self.walk(f, fid, t, env, ev2, stack, depth, visits)
            return
        m = re.match(r"^drop\((.+?)\) -> \[return: (bb\d+)", ln)
        if m:
            pl = self.place(m.group(1), env, fid)
            ty = f.ltypes.get("_%d" % pl[2]) if pl[0] == "local" else None
            cls = self.classify_drop(ty)
            if cls:
                v = env.get(pl, ("unk", "dropped"))
                for c in cls:
                    events = events + [("N", c, v)]
            elif ty and re.search(r"\b(bytes::Bytes|BytesMut)\b", ty) and "&" not in ty:
                dname = "bytes_mut" if "BytesMut" in ty else "bytes"
                df = None
                for name, g in self.funcs.items():
                    if name.startswith(dname + "::<impl at") and name.endswith("::drop") and ("BytesMut" in g.ptypes.get("_1", "")) == (dname == "bytes_mut") and "Shared" not in g.ptypes.get("_1", ""):
                        df = g
                        break
                if df is None:
                    raise Unknown("no Drop impl found for " + ty)
                nfid = self.fresh()
                nenv = {("local", nfid, 1): ("ref", pl)}
                nenv.update({k: v for k, v in env.items()})
                self.inlined.add(df.name)
                return self.walk(df, nfid, "bb0", nenv, events, stack + [(f, fid, env, None, m.group(2))], depth + 1, visits)
            return self.walk(f, fid, m.group(2), env, events, stack, depth, visits)
        m = re.match(r"^assert\((.+?), .*\) -> \[success: (bb\d+)", ln, re.S)
        if m:
            return self.walk(f, fid, m.group(2), env, events, stack, depth, visits)
        m = re.match(r"^(.*\)) -> (?:\[return: (bb\d+)(?:, unwind[^\]]*)?\]|unwind .*|bb\d+)$", ln, re.S)
        if m:
            head, nxt = m.group(1), m.group(2)
            # split `dest = callee(args)`: the argument list is the LAST balanced (...) group
            d, i = 0, len(head) - 1
            while i >= 0:
                if head[i] == ")":
                    d += 1
                elif head[i] == "(":
                    d -= 1
                    if d == 0:
                        break
                i -= 1
            argtxt = head[i + 1:-1]
            pre = head[:i]
            dm = re.match(r"^(_\d+|\(.+?\)) = (.+)$", pre, re.S)
            if dm and self._balanced(dm.group(1)):
                dest = self.place(dm.group(1), env, fid)
                callee = dm.group(2).strip()
            else:
                dest, callee = None, pre.strip()
            args = [self.operand(a, env, fid, events) for a in split_top(argtxt)] if argtxt.strip() else []
            return self.call(callee, args, dest, nxt, f, fid, env, events, stack, depth, visits)
        raise Unknown("terminator: " + ln[:200])

    def simplify(self, v):
        if v[0] == "cmp":
            a, b = self.simplify(v[2]), self.simplify(v[3])
            if a[0] == "const" and b[0] == "const":
                r = {"Eq": a[1] == b[1], "Ne": a[1] != b[1], "Gt": a[1] > b[1], "Lt": a[1] < b[1], "Le": a[1] <= b[1], "Ge": a[1] >= b[1]}[v[1]]
                return ("const", 1 if r else 0)
            return ("cmp", v[1], a, b)
        if v[0] == "arith":
            a, b = self.simplify(v[2]), self.simplify(v[3])
            if a[0] == "const" and b[0] == "const":
                op = v[1]
                r = {"Shr": a[1] >> b[1], "Shl": (a[1] << b[1]) % 2**64, "Add": (a[1] + b[1]) % 2**64, "Sub": (a[1] - b[1]) % 2**64,
                     "BitAnd": a[1] & b[1], "BitOr": a[1] | b[1]}.get(op)
                if r is not None:
                    return ("const", r)
            if v[1] == "BitAnd" and b[0] == "const":
                return ("and", a, b[1])
            return ("arith", v[1], a, b)
        if v[0] == "and":
            a = self.simplify(v[1])
            if a[0] == "const":
                return ("const", a[1] & v[2])
            return ("and", a, v[2])
        if v[0] == "not":
            a = self.simplify(v[1])
            if a[0] == "const":
                return ("const", 0 if a[1] else 1)
            return ("not", a)
        return v

    def cont(self, val, dest, nxt, f, fid, env, events, stack, depth, visits):
        if nxt is None:
            return  # diverging call
        env = dict(env)
        if dest is not None and dest[0] == "local":
            env[dest] = val
        self.walk(f, fid, nxt, env, events, stack, depth, visits)

    def call(self, callee, args, dest, nxt, f, fid, env, events, stack, depth, visits):
        c = callee
        K = lambda val, evs=events: self.cont(val, dest, nxt, f, fid, env, evs, stack, depth, visits)
        # ---- atomics
        m = re.match(r"^(?:core::sync::atomic::)?Atomic(?:Usize|Ptr)?(?:::<.*?>)?::(load|store|fetch_add|fetch_sub|compare_exchange|compare_exchange_weak|swap|fetch_or|fetch_and)$", c)
        if m:
            op = m.group(1)
            aid = self.fresh()
            ords = [a[1] for a in args if a[0] == "ord"]
            vals = [a for a in args[1:] if a[0] != "ord"]
            self.models_used.add("Atomic::" + op)
            return K(("atom", aid), events + [("A", aid, op, args[0], ords, vals)])
        if re.search(r"Atomic(::<.*?>)?::get_mut$", c):
            self.models_used.add("Atomic::get_mut")
            return K(("datacell", args[0]), events + [("N", "PLAIN_R", ("cell", args[0]))])
        if re.match(r"^(?:(?:core|std)::sync::atomic::)?compiler_fence$", c):
            self.models_used.add("compiler_fence = no event")
            return K(("unk", "()"))
        if re.match(r"^(?:(?:core|std)::sync::atomic::)?fence$", c):
            aid = self.fresh()
            self.models_used.add("atomic::fence")
            return K(("unk", "fence"), events + [("A", aid, "fence", ("unk", "fence"), [a[1] for a in args if a[0] == "ord"], [])])
        if re.match(r"^ptr_map::<", c):
            self.models_used.add("ptr_map (tag arithmetic on the same pointer)")
            return K(args[0])
        if re.match(r"^(move|copy) _\d+$", c):
            # call through a function pointer (the owner's type-erased drop fn)
            self.models_used.add("indirect call = FREE_OWNER")
            return K(("unk", "()"), events + [("N", "FREE_BUF", args[0] if args else ("unk", "?")), ("N", "FREE_CTRL", args[0] if args else ("unk", "?"))])
        # ---- with_mut(closure): crate function taking a closure; inline the closure on the plain value of the cell
        if "with_mut::<" in c:
            cf = self.closure_for(c)
            if cf is None:
                raise Unknown("closure of " + c)
            self.models_used.add("AtomicMut::with_mut")
            nfid = self.fresh()
            nenv = dict(env)
            nenv[("local", nfid, 1)] = args[1] if len(args) > 1 else ("unk", "closure")
            nenv[("local", nfid, 2)] = ("datacell", args[0])
            self.inlined.add(cf.name)
            return self.walk(cf, nfid, "bb0", nenv, events + [("N", "PLAIN_R", ("cell", args[0]))], stack + [(f, fid, env, dest, nxt)], depth + 1, visits)
        if re.match(r"^Result::<.*>::(is_ok|is_err)$", c):
            v = args[0]
            if v[0] == "ref":
                v = self.read_place(v[1], env, events)
            r = ("cas_ok", v)
            return K(r if c.endswith("is_ok") else ("not", r))
        # ---- aborts / panics
        if re.search(r"(^|::)abort$", c) or "process::abort" in c:
            self.finish(events, "abort")
            return
        if re.match(r"^(panic_fmt$|panic$|core::panicking::|std::rt::|begin_panic|core::option::expect_failed|core::result::unwrap_failed|panic_advance|panic_does_not_fit|alloc::raw_vec::capacity_overflow|alloc::alloc::handle_alloc_error)", c):
            self.finish(events, "panic")
            return
        # ---- ownership / memory models
        if re.match(r"^Box::<(bytes::|bytes_mut::)?Shared>::new$", c) or re.match(r"^Box::<.*Owned<.*>>::new$", c):
            nid = self.fresh()
            self.models_used.add("Box::new")
            init = None
            if args and args[0][0] == "agg":
                for fv in args[0][2]:
                    if isinstance(fv, tuple) and fv[0] == "const":
                        init = fv[1]   # the Atomic::new(<const>) field: initial reference count
                    if isinstance(fv, tuple) and fv[0] == "agg":
                        for gv in fv[2]:
                            if isinstance(gv, tuple) and gv[0] == "const":
                                init = gv[1]
            return K(("new", nid), events + [("N", "ALLOC_CTRL", ("new", nid, init))])
        if re.match(r"^Box::<.*>::(into_raw|leak)$", c):
            return K(args[0])
        if re.match(r"^Box::<.*>::from_raw$", c):
            self.models_used.add("Box::from_raw")
            return K(("box", args[0]))
        if re.match(r"^(core|std)::mem::drop::<(alloc::boxed::)?Box<.*Shared>>$", c):
            self.models_used.add("drop(Box<Shared>)")
            return K(("unk", "()"), events + [("N", "FREE_BUF", args[0]), ("N", "FREE_CTRL", args[0])])
        if re.match(r"^<(alloc::boxed::)?Box<.*> as Drop>::drop$", c):
            self.models_used.add("<Box as Drop>::drop")
            tgt = args[0]
            if tgt[0] == "ref":
                tgt = self.read_place(tgt[1], env, events)
            return K(("unk", "()"), events + [("N", "FREE_CTRL", tgt)])
        if re.match(r"^(core|std)::mem::drop::<(alloc::vec::)?Vec<u8>>$", c):
            return K(("unk", "()"), events + [("N", "FREE_BUF", args[0])])
        if re.match(r"^(core|std)::mem::forget::", c):
            return K(("unk", "()"))
        if re.match(r"^(alloc::alloc::|std::alloc::)?dealloc$", c):
            self.models_used.add("dealloc")
            return K(("unk", "()"), events + [("N", "FREE_BUF", args[0])])
        if re.match(r"^Vec::<u8>::from_raw_parts$", c):
            self.models_used.add("Vec::from_raw_parts")
            return K(("vecbuf", args[0]), events + [("N", "TAKE_BUF", args[0])])
        if re.match(r"^(core|std)::mem::replace::<(alloc::vec::)?Vec<u8>>$", c):
            self.models_used.add("mem::replace::<Vec<u8>>")
            return K(("vecbuf", args[0]), events + [("N", "TAKE_BUF", args[0])])
        if re.match(r"^(core::ptr::|std::ptr::)?(copy|copy_nonoverlapping)::<u8>$", c) or re.match(r"^core::intrinsics::(copy|copy_nonoverlapping)::<u8>$", c):
            self.models_used.add("ptr::copy")
            return K(("unk", "()"), events + [("N", "READ_BUF", args[0]), ("N", "WRITE_BUF", args[1])])
        if re.match(r"^(core::)?slice::<impl \[u8\]>::to_vec$", c) or re.match(r"^<\[u8\]>::to_vec", c) or c.endswith("::to_vec"):
            self.models_used.add("[u8]::to_vec")
            return K(("unk", "vec copy"), events + [("N", "READ_BUF", args[0])])
        if re.match(r"^Vec::<u8>::extend_from_slice$", c) or c.endswith("extend_from_slice"):
            return K(("unk", "()"), events + [("N", "READ_BUF", args[1] if len(args) > 1 else ("unk", "src"))])
        if re.match(r"^<(bytes::)?Bytes as (core::clone::)?Clone>::clone$", c) and args and args[0][0] == "ref":
            # the clone is a handle on the same view: (ptr, len) are the source's at this moment (decided by the Kani step
            # harnesses clone_step / promo_clone: c.ptr == b.ptr && c.len == b.len); data / vtable stay unknown
            self.models_used.add("<Bytes as Clone>::clone = same (ptr, len)")
            ver = self.store_version(events)
            src = ("deref", args[0])
            return K(("agg", "Bytes", [("plain", ("field", src, 0), ver), ("plain", ("field", src, 1), ver), ("unk", "clone.data"), ("unk", "clone.vtable")]))
        # ---- crate-local: inline
        g = self.resolve(c)
        if g is not None:
            if depth > 12:
                raise Unknown("inlining too deep at " + c)
            nfid = self.fresh()
            nenv = dict(env)
            for i, a in enumerate(args, 1):
                nenv[("local", nfid, i)] = a
            self.inlined.add(g.name)
            return self.walk(g, nfid, "bb0", nenv, events, stack + [(f, fid, env, dest, nxt)], depth + 1, visits)
        if PURE.match(c):
            # transparent for pointers: cast-like helpers return their first argument
            if re.search(r"::(cast|cast_mut|cast_const|as_ptr|as_mut_ptr|add|sub|wrapping_add|wrapping_sub|offset|new_unchecked|as_ref|as_mut|unwrap|expect|deref|deref_mut|into_inner|new|from)(::<.*>)?$", c) and args:
                return K(args[0])
            return K(("unk", c[:60]))
        raise Unknown("no model for call to `%s` (in %s)" % (c, f.name))


def fmt_val(v, depth=0):
    if not isinstance(v, tuple):
        return str(v)
    if depth > 4:
        return "…"
    if v[0] == "const":
        return str(v[1])
    if v[0] == "atom":
        return "a%d" % v[1]
    if v[0] == "arg":
        return "arg%d" % v[2]
    return "%s(%s)" % (v[0], ",".join(fmt_val(x, depth + 1) for x in v[1:] if not isinstance(x, str) or len(x) < 40))


def fmt_path(p):
    out = []
    for it in p:
        if it[0] == "A":
            out.append("%s#%d[%s](%s)" % (it[2], it[1], "/".join(it[4]), fmt_val(it[3])))
        elif it[0] == "G":
            out.append("if %s==%s" % (fmt_val(it[1]), it[2]))
        elif it[0] == "N":
            out.append(it[1])
        else:
            out.append("END:" + it[1])
    return "; ".join(out)


if __name__ == "__main__":
    mir = open(sys.argv[1]).read() if len(sys.argv) > 1 and os.path.exists(sys.argv[1]) else dump_mir("/repo")
    funcs, consts = parse(mir)
    print(len(funcs), "functions;", consts)
    for entry in sys.argv[2:]:
        w = Walker(funcs, consts)
        try:
            ps = w.run(entry)
            print("==", entry, len(ps), "paths")
            for p in ps:
                print("   ", fmt_path(p))
        except Unknown as e:
            print("==", entry, "UNKNOWN:", e)
