#!/usr/bin/env python3
"""Writes /verif/MANIFEST.json from the table below (single source of truth for what is claimed)."""
import json, os, subprocess
V = os.path.dirname(os.path.dirname(os.path.abspath(__file__)))

KANI = "Kani 0.68 / CBMC 6.11 bounded model checking of the compiled crate (symbolic inputs, SAT-decided)"
COMMON_NOTE = ("Trusted: Kani's MIR->goto translation, CBMC, CaDiCaL, Kani's allocator model; crate built with --cfg miri "
               "(ptr_map twin, equivalence decided separately); allocation never fails; panic = abort (no unwinding); x86-64 only. ")

CLAIMED = {
    "C14": dict(
        text="Bounded model checking: one Kani harness per comparison/hash/borrow impl scraped from the working tree, both "
             "operands symbolic (every byte value, lengths 0..=3), result compared with the same operator on the model slices, "
             "both operand orders and antisymmetry across mirrored impls; Hash compared as the exact sequence of Hasher::write calls.",
        note=COMMON_NOTE + "Operands longer than 3 bytes and non-ASCII str operands are outside the bound (the impls delegate to slice "
             "comparison, whose loop is covered for 0..=3 iterations with unwinding assertions).",
        technique="Kani/CBMC symbolic execution of each scraped impl vs. slice oracle (SAT)",
        design="5 C14"),
    "C10": dict(
        text="Bounded model checking: for every get_X/try_get_X pair scraped from `pub trait Buf` (38 pairs) Kani decides, for all byte "
             "values, that the result equals an independent shift-and-or decoding of the next bytes (two's-complement sign extension "
             "written out; nbytes symbolic in 0..=8), that the cursor advances by exactly the width, that try_get == Ok(get), and on a "
             "short buffer (symbolic shortfall) that try_get returns Err{requested, available} with the cursor untouched and get never "
             "returns. Chunking: every chunking of the value for widths <= 4 (symbolic chunk length at every position), one symbolic cut "
             "plus 1-byte and 3-byte chunks for 8/16-byte values (all chunkings in the thorough tier); implementors &[u8], Bytes, BytesMut, "
             "Cursor, Chain, Take and the &mut / Box forwarding impls. Exactly `width` bytes and `width + 1` bytes remaining are both covered "
             "(the boundary of the enough-bytes test); the one-cut and Chain targets are physically fragmented (each chunk flush with the end of "
             "its own array), so a read past the end of chunk() leaves the object.",
        note=COMMON_NOTE + "Native endian is checked on the little-endian target only. For 16-byte values the quick tier does not cover "
             "chunkings with two or more boundaries other than all-1-byte and all-3-byte chunks (thorough does). slice_index_fail is stubbed by a plain panic.",
        technique="Kani/CBMC symbolic execution of each getter vs. independent reference decoder (SAT)",
        design="5 C10"),
    "C09": dict(
        text="Bounded model checking of the cursor laws (remaining = length, chunk = non-empty prefix, advance/copy_to_slice/"
             "try_copy_to_slice/copy_to_bytes/typed read consume exactly the next bytes, chunks_vectored: count <= dst.len(), concatenation "
             "is a prefix, >= 1 non-empty slice, dst beyond the count untouched, into_iter) for every Buf of the crate. Adapters (Chain, Take "
             "with the limit symbolic over all of usize incl. set_limit mid-stream, &mut, Box, Box<dyn Buf>, IntoIter) are decided relative to "
             "SymBuf inners (symbolic content, length and chunking), which by induction over nesting depth covers arbitrary nestings; depth-3/4 "
             "nestings over SymBuf and over real leaf types are instantiated as a cross-check; leaves: &[u8], Bytes (3 representations), BytesMut, "
             "Cursor with a symbolic u64 position, wrapped VecDeque; advance past the end must not return.",
        note=COMMON_NOTE + "Sequences <= 4 bytes per leaf (<= 8 per nesting), <= 2 cursor operations per harness (the laws are state "
             "invariants re-established after each operation), chunks_vectored destinations of 0..=3 slots, VecDeque in three concrete ring shapes.",
        technique="Kani/CBMC symbolic execution of adapters over lawful symbolic inner buffers (SAT)",
        design="5 C09"),
    "C11": dict(
        text="Bounded model checking: every put_X scraped from `pub unsafe trait BufMut` (38) writes exactly an independent shift-based "
             "encoding (value and nbytes symbolic) at the cursor, a following write lands right behind it, remaining_mut drops by the width, "
             "every byte outside the written range keeps its guard value (symbolic index), the matching get_X reads the value back; a write "
             "that does not fit never returns and an observer installed in place of the crate's panic_advance asserts that no guard byte was "
             "modified when the panic is raised. put_slice/put_bytes/put(Buf) with symbolic sources (SymBuf, independent chunking on both "
             "sides). Targets: &mut [u8], &mut [MaybeUninit<u8>], Vec (growth / no growth), BytesMut (vec form with/without offset, shared "
             "form in thorough), Chain with symbolic split whose halves are windows of SEPARATE guard arrays (an overrun of the first half's chunk hits a guard), "
             "Limit with symbolic limit, SymBufMut (1-byte, 3-byte, symbolic chunks), &mut B, Box<B> (incl. the provided put_bytes loop over a Vec with less spare capacity than the fill).",
        note=COMMON_NOTE + "Windows <= 20 bytes; growable targets use concrete nbytes/lengths (they are allocation sizes); native endian on "
             "little-endian only; bytes::panic_advance and core::slice::index::slice_index_fail are stubbed (observer / plain panic).",
        technique="Kani/CBMC symbolic execution of each putter vs. independent reference encoder, guard bytes, panic-site observer stub (SAT)",
        design="5 C11"),
    "C12": dict(
        text="Bounded model checking over lawful symbolic inner buffers: take(n) for every n in usize exposes exactly min(n, remaining) bytes and "
             "limit()/get_ref()/into_inner() show the inner advanced by exactly what went through (also after set_limit mid-stream, typed reads "
             "crossing the limit, copy_to_bytes, chunks_vectored with three inner slices); chain reads a then b and first_ref/last_ref/into_inner "
             "show the split consumption; limit(n) accepts at most n (a larger write never returns and touches nothing), chain_mut fills a "
             "then b; Reader::read/fill_buf/consume and Writer::write/flush transfer min(available, requested) and return Ok.",
        note=COMMON_NOTE + "Inner buffers <= 4 bytes, nestings up to depth 3 over SymBuf (depth 4 over real leaves in thorough); only read, "
             "fill_buf, consume, write, flush of std::io are encoded (std's looping default methods are outside).",
        technique="Kani/CBMC symbolic execution of adapters over SymBuf/SymBufMut with symbolic limits (SAT)",
        design="5 C12"),
    "C01": dict(
        text="Bounded model checking, inductive form: in-crate single-step Kani harnesses from ARBITRARY states satisfying the representation invariant of each vtable / BytesMut form (symbolic contents, view, and reference count over 1..=usize::MAX/2; request sizes symbolic over all of usize), which by induction over the operation history covers histories of any length inside the size bound (allocation 4 resp. 8 bytes). After the operation every involved handle is compared with the value model "
             "(length exactly, every byte through a symbolic index) and the bytes of the original allocation outside the target's own region "
             "are asserted unchanged (what every other live handle reads). Operations: clone, slice, split_off/split_to/split, truncate, clear, "
             "advance, unsplit, reserve/try_reclaim, resize, extend, set_len, freeze, Bytes<->BytesMut<->Vec conversions, drop, on static, "
             "owner-backed, promotable even/odd (odd allocator stub), promoted, shared, inline-Vec (any front offset), shared BytesMut and frozen forms.",
        note=COMMON_NOTE + "Buffers of 4 (Bytes) / 8 (BytesMut) bytes; ghost handles are abstracted to a reference count plus 'bytes outside my "
             "region unchanged'; constructors are checked to establish the invariants (base cases); the induction step itself is a paper argument.",
        technique="Kani/CBMC inductive step from symbolic valid states vs. value model (SAT)", design="4.3, 5 C01"),
    "C02": dict(
        text="Bounded model checking: every harness of the step, out-of-contract, cursor and putter families runs with CBMC's pointer checks "
             "(NULL/invalid/deallocated/dead/out-of-bounds dereference, free of a non-base or freed pointer), Kani's dealloc-size check "
             "(layout-exact free), arithmetic-overflow checks and kani::mem::can_write_unaligned on [ptr, ptr+capacity) of every BytesMut produced; "
             "Vec-backed states run under the built-in (even) and the odd-address allocator stubs; arguments are symbolic over all of usize "
             "including the out-of-contract region (those calls must panic at their contract assertion and nowhere else).",
        note=COMMON_NOTE + "Uninitialised-memory reads and provenance-level UB are outside (Kani -Z uninit-checks ICEs here); "
             "builds without debug assertions are covered by the C16 reduction (every overflow check and debug_assert is proved, so removing them changes nothing).",
        technique="CBMC memory-safety checks over symbolic states and arguments (SAT)", design="5 C02"),
    "C03": dict(
        engine="E1-kani + E2-mirsym",
        text="Bounded model checking, inductive form: from arbitrary shared states with a symbolic reference count every operation changes the "
             "count by exactly the number of handles created/destroyed, storage is freed iff the count was 1 (CBMC use-after-free/double-free checks "
             "plus --memory-leak-check after the harness releases the ghost references), in either drop order of the handles the operation produced. "
             "Owner-backed data: as_ref called exactly once, owner dropped exactly when the last view goes, conversions of a view copy and release.",
        note=COMMON_NOTE + "Kani models panic as abort, so 'also when as_ref panics' and leaks on unwinding paths are outside; "
             "the owner is an instrumented [u8;4] struct (one instantiation).",
        technique="Kani/CBMC inductive step with symbolic reference counts + leak check (SAT)", design="5 C03"),
    "C04": dict(
        text="Bounded model checking, inductive form: in-crate single-step Kani harnesses from ARBITRARY states satisfying the representation invariant of each vtable / BytesMut form (symbolic contents, view, and reference count over 1..=usize::MAX/2; request sizes symbolic over all of usize), which by induction over the operation history covers histories of any length inside the size bound (allocation 4 resp. 8 bytes). reserve/try_reclaim: `additional` symbolic over ALL of usize on both BytesMut forms and any "
             "reference count: try_reclaim never performs an allocator event (counting allocator stubs), true => capacity-len >= additional with "
             "contents/length unchanged and the region inside one live allocation, false => (ptr,len,cap,data) bit-identical; reserve: promise kept "
             "on the in-place, shift-to-front, grow and move-to-new-buffer paths (growth sizes concrete), unrepresentable totals never return. "
             "Splits: halves disjoint, in bounds, write probe into one half's spare capacity invisible through the other; unique Bytes->BytesMut "
             "gets capacity exactly up to the allocation end. "
             "Plus an SMT path-condition query (E2 + z3) on try_unsplit's MIR: the zero-copy merge is reachable only under both kind()==KIND_ARC tests, "
             "adjacency ptr+len==other.ptr and equality of the two data words (two handles that merely sit on adjacent allocations are never glued).",
        note=COMMON_NOTE + "Allocation of 8 bytes (CBMC does not decide symbolic offsets into objects > 64 bytes); capacity classes >= 1 KiB only "
             "through a symbolic original_capacity_repr field (over-approximation of reachable states for that one branch).",
        engine="E1-kani + E2-mirsym", technique="Kani/CBMC inductive step, request sizes over all usize, allocator-event ledger stubs (SAT); z3 path-condition query over the MIR of try_unsplit", design="5 C04"),
    "C07": dict(
        text="Bounded model checking: in every step harness each produced non-empty handle is asserted to start at the source pointer plus its "
             "logical offset (pointer equality inside one CBMC object) for clone, slice, split_off, split_to, split, truncate, advance, freeze "
             "(all forms), unsplit of adjacent halves, unique Bytes->BytesMut on every vtable; conversions that must reuse the allocation assert "
             "as_ptr == allocation base and capacity == allocation size.",
        note=COMMON_NOTE + "The address clause for EMPTY split results is outside: the crate builds those pointers with without_provenance(addr) "
             "and CBMC's object/offset pointer encoding cannot represent an integer address moved onto the null object. 'Never allocates a byte "
             "buffer' is asserted through the counting allocator stubs only for the reclaim/recycle harnesses.",
        technique="Kani/CBMC pointer-equality assertions inside step harnesses (SAT)", design="5 C07"),
    "C08": dict(
        text="Bounded model checking: is_unique() == (reference count == 1) for a symbolic count on every heap vtable, false for static and "
             "owner-backed; try_into_mut is Ok exactly then and returns the same address; an empty BytesMut that is the only handle takes back the "
             "whole allocation: try_reclaim(n) is true for every n <= allocation size and reserve(n) performs no allocator event, on both forms and any offset.",
        note=COMMON_NOTE + "Allocation sizes 4/8 bytes.",
        technique="Kani/CBMC step harnesses with symbolic reference counts and allocator-event ledger (SAT)", design="5 C08"),
    "C13": dict(
        engine="E1-kani + E2-mirsym",
        text="Bounded model checking of clause (i): for every safe method with a contract (slice, slice_ref, split_off, split_to, advance, advance_mut, "
             "resize/reserve with unrepresentable sizes, typed get/put on short buffers, nbytes > 8) the argument is symbolic over the ENTIRE "
             "out-of-contract region; the only checks allowed to fail are clean panics of the code under test (an assert!/panic!/expect of the crate or one of std's "
             "panic helpers, wherever it sits - never an arithmetic-overflow check, a debug_assert! or a harness assertion), at least one must fail, the call must not return, and all memory-safety "
             "and overflow checks hold; the in-crate families are decided with debug assertions on AND off; documented no-ops (truncate beyond len, refused try_reclaim) leave the handle bit-identical; does-not-fit "
             "writes are observed at the panic site (guards untouched).",
        note=COMMON_NOTE + "Clause (ii)/(iii) (state after a caught panic, storage released once after unwinding) cannot be executed: Kani models "
             "panic as abort. What is decided is 'the panic is the first effect' (E2 path query over the MIR of ten panicking &mut self methods: no store through *self, "
             "no atomic read-modify-write, no buffer write on any path to a crate-level panic; observer stubs at the cursor / Vec panic sites) and 'no return'.",
        technique="Kani/CBMC over the whole out-of-contract argument region with expectation records (SAT)", design="5 C13"),
    "C18": dict(
        text="Bounded model checking of the inductive recycling step: from the state class R(C) (one empty BytesMut that is the sole owner of an "
             "allocation of C bytes, either form, any front offset) a full round reserve(n <= C) / fill / consume by split_to, split+freeze or advance / "
             "drop of the parts performs no byte-buffer allocation (counting allocator stubs) and ends in R(C) on the same allocation; a fresh buffer "
             "forced by a shared neighbour is sized by max(needed, original capacity class) for a symbolic class 1..=7. "
             "Round trips through Bytes and back (freeze of every BytesMut form; Bytes -> BytesMut from arbitrary shared / promoted / never-cloned / frozen states): "
             "the unique conversion keeps the allocation, and with the memory-leak check no control block or buffer survives the handles.",
        note=COMMON_NOTE + "C = 8; retention windows > 0 and the literal 10^3..10^6-round histories are replaced by the induction (paper step).",
        technique="Kani/CBMC inductive round with allocator-event ledger stubs (SAT)", design="5 C18"),
    "C15": dict(
        text="Bounded model checking: the Debug output of Bytes/BytesMut, captured in a fixed-array fmt::Write sink and parsed back by an "
             "independent byte-string-literal decoder written in the harness, equals the contents for ALL byte strings of length 0, 1, 2 and 3 "
             "(every byte value symbolic, i.e. all 256 / 65536 / 2^24 strings, incl. every escape adjacency); {:x}/{:X} print exactly two digits "
             "of the right case per byte in order (1-2 symbolic bytes; one concrete 66-byte buffer for completeness beyond one 64-byte block, each piece written checked at a symbolic position); with serde, serialize hands serialize_bytes exactly the contents and "
             "deserialize through visit_bytes / visit_byte_buf / visit_borrowed_bytes / visit_seq / visit_str / visit_string / visit_borrowed_str "
             "returns equal contents (symbolic contents up to 3 bytes, concrete size hints None / exact / 0).",
        note=COMMON_NOTE + "Strings longer than 3 bytes are outside (the formatter loop treats each byte independently - stated, not solver-checked); "
             "serde is driven by a hand-written Deserializer/Serializer, real data formats are not encoded.",
        technique="Kani/CBMC symbolic execution of core::fmt output + independent literal decoder (SAT)", design="5 C15"),
    "C16": dict(
        text="Decided by reduction over solver verdicts: (parity) every Vec-backed step harness runs under the built-in even-address allocator "
             "and under odd-address allocator stubs against the same deterministic model; (cfg twin) ptr_map's two bodies compute the same integer "
             "function for all addresses below 2^47 in both builds, plus the tag algebra; (profile) every arithmetic-overflow check and "
             "debug_assert inside the crate is proved for all inputs of the step/out-of-contract families, so removing them cannot change a result, "
             "and a sample of those families is re-run with -C debug-assertions=off; (features) a sample of the cursor/getter/putter/comparison "
             "families is re-run with --no-default-features and with extra-platforms (portable-atomic) against the same models.",
        note=COMMON_NOTE + "Release-profile EXECUTION is not available in Kani (overflow checks are always on); the reduction replaces it. "
             "The re-run samples are selected by VERIF_SEED (all of them in the thorough tier).",
        technique="reduction to Kani/CBMC verdicts across allocator parity, cfg twin, debug-assertion and feature-set builds (SAT)", design="5 C16"),
    "C17": dict(
        text="Bounded model checking with --prove-safety-only: a Buf whose remaining(), chunk() (any sub-slice of a real array, possibly empty) and "
             "advance() (ignore or panic) return fresh symbolic answers on every call is handed to every consumer (typed getters of every width, "
             "uint/int with symbolic nbytes, copy_to_slice, copy_to_bytes, chunks_vectored default/Chain/Take, Chain/Take advance, IntoIter, "
             "Reader, default put with guard bytes, Vec::put, BytesMut::put); an AsRef owner answering differently or panicking per call through "
             "from_owner + clone/slice/conversions; iterators with arbitrary size hints through extend/collect. All CBMC memory-safety checks "
             "must hold for every schedule of lies within 4 loop iterations per consumer.",
        note=COMMON_NOTE + "remaining() lies are drawn from 0..=12 and usize::MAX; loops are unwound 4 times without unwinding assertions (a liar may "
             "loop a consumer forever); leak-freedom only on returning paths; unsafe trait BufMut implementors are out of the property's scope.",
        technique="Kani/CBMC safety-only checking with fully nondeterministic trait implementations (SAT)", design="5 C17"),
    "C05": dict(
        engine="E1-kani + E2-mirsym + E3-rc11",
        text="Two solver decisions. (1) Kani on the real code: the promotion race - the loser of the compare_exchange continues with a STALE "
             "snapshot after the winner's complete clone, from an arbitrary unpromoted state (symbolic offset, even/odd address): it frees only "
             "its own control block, adopts the winner's, counts itself there, every clone reads the original bytes at the original address, all "
             "handles dropped in any order free the storage once; a conversion racing with a sibling's clone never takes the buffer. "
             "(2) Bounded axiomatic C11 model checking (z3): litmus programs of 2 (3 in thorough) threads x up to 4 operations from {clone, read, "
             "drop, into_vec, into_mut, is_unique} on shared / promoted (even, odd) / frozen / owner-backed storage and shared-form BytesMut handles (split = increment, drop, "
             "into Vec), all pairs of nine thread bodies per representation, and n threads cloning through one shared &Bytes that is still unpromoted; thread bodies are the atomic skeletons extracted from a fresh MIR dump of /repo; queries: freed "
             "twice, never freed (buffer and every control block), two zero-copy takers, buffer / control block accessed through a handle that is not happens-before its deallocation - unsat for every interleaving and weak-memory outcome.",
        note=COMMON_NOTE + "E3 abstracts non-atomic work to READ/WRITE/FREE/TAKE events on abstract objects via a model table for core/alloc calls "
             "(listed in the evidence); counter values 8-bit; programs outside the bounds and 'sampled schedules on real threads' are outside. "
             "A sat answer is reported with its execution graph (a C11-level counterexample cannot be replayed natively on x86).",
        technique="Kani stale-snapshot harnesses + SMT (z3) RC11 encoding of MIR-derived atomic skeletons", design="5 C05"),
    "C06": dict(
        engine="E2-mirsym + E3-rc11",
        text="Bounded axiomatic C11 model checking (z3, RC11 fragment without SC accesses): for the litmus programs of C05, no execution allowed "
             "by the memory model contains a buffer access that is not happens-before the buffer's deallocation, an access to a control block not "
             "happens-before its deallocation, two conflicting non-atomic buffer accesses that are hb-unordered (a reader vs. the party that took "
             "the buffer and mutates it), or an atomic access to a freshly allocated control block not ordered after its initialisation. The "
             "memory orderings are READ FROM THE MIR of the working tree on every run, so weakening any Release/Acquire/AcqRel changes the encoding; atomic::fence calls become fence events with the RC11 fence rules, so an equivalent fence-based formulation is accepted.",
        note=COMMON_NOTE + "Same abstraction as C05 part 2. Validated on every change by mutants (Release->Relaxed in release_shared, Acquire->Relaxed "
             "in shared_to_mut_impl / Shared::is_unique, AcqRel->Relaxed promotion CAS, non-atomic decrement) which turn queries sat.",
        technique="SMT (z3) RC11 happens-before encoding over atomic skeletons extracted from rustc MIR", design="5 C06"),
}

NOT_YET = "check not built yet in this session (work in progress; see DESIGN.md section 5 for the planned solver encoding)"

props = [json.loads(l) for l in open(os.path.join(V, "properties.jsonl"))]
checks = []
na = []
for p in props:
    pid = p["id"]
    if pid in CLAIMED:
        c = CLAIMED[pid]
        checks.append({
            "property_id": pid,
            "quick_cmd": "python3 bin/check %s --tier quick" % pid,
            "thorough_cmd": "python3 bin/check %s --tier thorough" % pid,
            "evidence_file": "evidence/%s.json" % pid,
            "replay_cmd_template": "cat {path}/README.txt",
            "engine": c.get("engine", "E1-kani"),
            "level_claimed": {"category": "model_checking", "text": c["text"], "design_ref": "DESIGN.md section " + c["design"]},
            "level_note": c["note"],
            "technique": c["technique"],
        })
    else:
        na.append({"property_id": pid, "reason": NOT_YET})

hooks_commits = []
try:
    out = subprocess.run(["git", "-C", "/repo", "log", "--format=%h %s"], stdout=subprocess.PIPE, text=True).stdout
    hooks_commits = [l.split()[0] for l in out.splitlines() if l.split(" ", 1)[1].startswith("verif-hook:")]
except Exception:
    pass

m = {
    "version": 1,
    "setup_cmd": "bash bin/setup",
    "hooks": {
        "guard": "--cfg tokio_rs_bytes_verif",
        "enable": "RUSTFLAGS=\"--cfg miri --cfg tokio_rs_bytes_verif\" cargo kani ... (in-crate harness modules are pulled in through #[cfg(tokio_rs_bytes_verif)] #[path = \"/verif/kani/incrate/<file>.rs\"] mod verif_incrate;)",
        "baseline_off_cmd": "cd /repo && cargo test --workspace --no-fail-fast --offline",
        "source_commits": hooks_commits,
        "add_only": True,
    },
    "engines": [
        {"name": "E1-kani", "path": "bin/check, bin/vlib.py, kani/ext, kani/incrate, gen/", "serves_properties": sorted(k for k in CLAIMED if k != "C06"),
         "kind_free_text": KANI},
        {"name": "E2-mirsym", "path": "bin/mirsym.py, bin/pathq.py", "serves_properties": ["C03", "C04", "C05", "C06", "C13"],
         "kind_free_text": "path-wise symbolic walk of the nightly -Zunpretty=mir dump of /repo (regenerated per run): atomic skeletons with orderings, guards and non-atomic effects; CFG path queries"},
        {"name": "E3-rc11", "path": "bin/rc11.py, bin/rc11_run.py", "serves_properties": ["C05", "C06"],
         "kind_free_text": "bounded axiomatic C11 (RC11 without SC) model checking in z3: symbolic rf/mo, release sequences, sw (incl. release/acquire fences), hb closure, coherence, no-thin-air"},
    ],
    "checks": checks,
    "not_applicable": na,
    "notes": "All checks are solver-based (family: solver-based checking of the real code). exit 2 = inconclusive (never reported as success).",
}
json.dump(m, open(os.path.join(V, "MANIFEST.json"), "w"), indent=1)
print("MANIFEST.json: %d checks, %d not_applicable" % (len(checks), len(na)))
