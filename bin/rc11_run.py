#!/usr/bin/env python3
"""Runs E2+E3 for one property (C05 or C06): extracts the atomic skeletons from a fresh MIR dump of /repo, builds the
litmus programs, discharges the queries with z3 and prints a JSON report on the last line."""
import sys, os, json, time, itertools, random
sys.path.insert(0, os.path.dirname(os.path.abspath(__file__)))
import mirsym, rc11
from rc11 import *
from z3 import *

PROP = sys.argv[1]
TIER = sys.argv[2] if len(sys.argv) > 2 else "quick"
SEED = int(sys.argv[3]) if len(sys.argv) > 3 else 0
REPO = os.environ.get("VERIF_REPO", "/repo")
OUTDIR = sys.argv[4] if len(sys.argv) > 4 else "/verif/.work/rc11"
os.makedirs(OUTDIR, exist_ok=True)
T0 = time.time()
report = {"engine": "E2-mirsym+E3-rc11", "queries": 0, "nontrivial": 0, "obligations": 0, "discharged": 0, "solver_s": 0.0,
          "inconclusive": [], "violations": [], "known": [], "samples": [], "functions": [], "programs": 0}

# representation -> operation -> implementing function (the vtable entries; names are looked up in the MIR dump)
REPS = {
    "shared": dict(clone="shared_clone", drop="shared_drop", to_vec="shared_to_vec", to_mut="shared_to_mut", is_unique="shared_is_unique"),
    "promoted_even": dict(clone="promotable_even_clone", drop="promotable_even_drop", to_vec="promotable_even_to_vec",
                          to_mut="promotable_even_to_mut", is_unique="promotable_is_unique"),
    "promoted_odd": dict(clone="promotable_odd_clone", drop="promotable_odd_drop", to_vec="promotable_odd_to_vec",
                         to_mut="promotable_odd_to_mut", is_unique="promotable_is_unique"),
    "frozen": dict(clone="shared_v_clone", drop="shared_v_drop", to_vec="shared_v_to_vec", to_mut="shared_v_to_mut", is_unique="shared_v_is_unique"),
    "owned": dict(clone="owned_clone", drop="owned_drop", to_vec="owned_to_vec", to_mut="owned_to_mut", is_unique="owned_is_unique"),
    # BytesMut handles in shared form: clone = what split_off/split_to do to the count (increment_shared), drop = Drop for BytesMut,
    # to_vec = From<BytesMut> for Vec<u8> (Shared::is_unique, then take the vector or copy + release)
    "bm_arc": dict(clone="increment_shared", drop="@BytesMut::drop", to_vec="@Vec::from(BytesMut)"),
}
BM_FIELDS = [("unk", "ptr"), ("unk", "len"), ("unk", "cap"), ("dataval", ("arg", "self", 1))]

try:
    mir = mirsym.dump_mir(REPO)
    funcs, consts = mirsym.parse(mir)
    skel = {}
    models = set()
    inlined = set()
    needed = sorted(set(f for r in REPS.values() for f in r.values()))
    def lookup(fn):
        if fn == "@BytesMut::drop":
            c = [n for n, f in funcs.items() if n.startswith("bytes_mut::<impl") and n.endswith("::drop") and f.ptypes.get("_1", "").strip() == "&mut BytesMut"]
            return c[0], {1: ("byref_agg", "BytesMut", BM_FIELDS)}
        if fn == "@Vec::from(BytesMut)":
            c = [n for n, f in funcs.items() if n.startswith("bytes_mut::<impl") and n.endswith("::from") and f.ptypes.get("_1", "").strip() == "BytesMut"
                 and "Vec<u8>" in (open("/dev/null").read() or "Vec<u8>")]
            c = [n for n in c if any("is_unique" in ln for b in funcs[n].blocks.values() for ln in b)]
            return c[0], {1: ("agg", "BytesMut", BM_FIELDS)}
        return fn, None
    for fn in needed:
        w = mirsym.Walker(funcs, consts)
        real, argv = lookup(fn)
        paths = w.run(real, argv)
        models |= w.models_used
        inlined |= w.inlined
        pr = rc11.project(paths)
        # a party that obtained the buffer without copying may mutate it and finally frees it
        out = []
        for p in pr:
            if any(it[0] == "N" and it[1] == "TAKE_BUF" for it in p):
                p = p + [("N", "WRITE_BUF", ("owner",)), ("N", "FREE_BUF", ("owner",))]
            out.append(p)
        skel[fn] = out
    # shared_v_to_mut's zero-copy path returns a BytesMut that still holds the (now sole) reference on the same
    # control block: the party has exclusive ownership (TAKE), may mutate, and releases the reference when the
    # BytesMut is dropped -> append the release skeleton (shared_v_drop) to that path
    def renum(v, off):
        if isinstance(v, tuple):
            if v and v[0] == "atom":
                return ("atom", v[1] + off)
            return tuple(renum(x, off) for x in v)
        if isinstance(v, list):
            return [renum(x, off) for x in v]
        return v
    if "shared_v_to_mut" in skel and "shared_v_drop" in skel:
        out = []
        for p in skel["shared_v_to_mut"]:
            has_rel = any(it[0] == "A" and it[2] == "fetch_sub" for it in p)
            has_take = any(it[0] == "N" and it[1] == "TAKE_BUF" for it in p)
            if not has_rel and not has_take:
                for dp in skel["shared_v_drop"]:
                    tail = []
                    for it in dp:
                        if it[0] == "A":
                            tail.append(("A", it[1] + 1000, it[2], renum(it[3], 1000), it[4], renum(it[5], 1000)))
                        elif it[0] == "G":
                            tail.append(("G", renum(it[1], 1000), it[2]))
                        else:
                            tail.append(it)
                    out.append(p + [("N", "TAKE_BUF", ("owner",)), ("N", "WRITE_BUF", ("owner",))] + tail)
            else:
                out.append(p)
        skel["shared_v_to_mut"] = out
    report["functions"] = sorted(needed) + sorted(inlined)
    report["models"] = sorted(models)
    report["skeletons"] = {fn: [mirsym.fmt_path(p + [("E", "return")]) for p in ps] for fn, ps in skel.items()}
except mirsym.Unknown as e:
    report["inconclusive"].append("skeleton extraction: %s" % e)
    print(json.dumps(report))
    sys.exit(0)

# ------------------------------------------------------------------------------------------- litmus programs
BODIES = [
    ["drop"], ["read", "drop"], ["clone", "drop", "drop"], ["to_vec"], ["to_mut"], ["read", "to_mut"], ["is_unique", "drop"],
    ["clone", "read", "drop", "drop"], ["read", "to_vec"],
]

def handles_ok(body):
    h = 1
    for o in body:
        if o in ("read", "is_unique", "clone") and h < 1:
            return False
        if o == "clone":
            h += 1
        if o in ("drop", "to_vec", "to_mut"):
            if h < 1:
                return False
            h -= 1
    return h == 0

BODIES = [b for b in BODIES if handles_ok(b)]

def programs(tier, seed):
    progs = []
    for rep in REPS:
        pairs = list(itertools.combinations_with_replacement(range(len(BODIES)), 2))
        for a, b in pairs:
            progs.append((rep, [BODIES[a], BODIES[b]], False))
        if tier != "quick":
            for t in itertools.combinations_with_replacement(range(6), 3):
                progs.append((rep, [BODIES[i] for i in t], False))
    # promotion programs: n threads clone through ONE shared &Bytes that is still unpromoted, drop their clone;
    # the owner drops the original after joining them
    for par in ("promoted_even", "promoted_odd"):
        progs.append((par, [["clone", "drop"], ["clone", "drop"]], True))
        progs.append((par, [["clone", "read", "drop"], ["clone", "drop"]], True))
        if tier != "quick":
            progs.append((par, [["clone", "drop"], ["clone", "drop"], ["clone", "drop"]], True))
            progs.append((par, [["clone", "to_mut"], ["clone", "drop"]], True))
    progs = [p for p in progs if all(o == "read" or o in REPS[p[0]] for b in p[1] for o in b)]
    return progs


def build(rep, bodies, promotion):
    nthreads = len(bodies)
    init_cnt = nthreads if not promotion else 0
    b = Builder(skel, init_cnt, promoted=not promotion)
    init_events = []
    dataconst = BitVecVal(BLOCK0, W)
    if promotion:
        i = b.add(Ev(0, "I", BitVecVal(DATA_LOC, W), "Relaxed", BoolVal(True), None, BitVecVal(UNPROMOTED, W), "init data = tagged buffer pointer"))
        init_events.append(i)
    else:
        i = b.add(Ev(0, "I", BitVecVal(BLOCK0, W), "Relaxed", BoolVal(True), None, BitVecVal(init_cnt, W), "init ref_cnt = %d" % init_cnt))
        init_events.append(i)
    tails_all = []
    thread_blk = {}
    for t, body in enumerate(bodies, 1):
        last = []
        for k, o in enumerate(body):
            if o == "read":
                idx = b.plain(t, k, "READ_BUF", last, "read")
                last = [idx]
                continue
            fn = REPS[rep][o]
            via_shared_ref = promotion and o == "clone" and k == 0
            if promotion:
                if via_shared_ref:
                    # clone through the shared &Bytes: the new handle lives on whichever block the path established
                    tblk = b.fresh("blk_t%d" % t)
                    b.s.add(Or([tblk == BitVecVal(x, W) for x in range(BLOCK0 + 2, BLOCK0 + 2 + 2 * (nthreads + 1), 2)]))
                    thread_blk[t] = tblk
                    tails = b.op(t, k, fn, last, BitVecVal(UNPROMOTED, W), True, o, result_blk=tblk)
                else:
                    tails = b.op(t, k, fn, last, thread_blk[t], False, o)
            else:
                tails = b.op(t, k, fn, last, dataconst, False, o)
            # all tails of the op precede the next op (the executed one is selected by the path guards)
            last = sorted(set(i for tl, _ in tails for i in tl if i is not None)) or last
        tails_all += last
    if promotion:
        # the owner of the original handle joins the threads, then drops it: it reads the final value of the data cell
        dfin = b.fresh("dfin")
        ridx = b.add(Ev(0, "R", BitVecVal(DATA_LOC, W), "Relaxed", BoolVal(True), dfin, None, "T0 owner reads data before its final drop"))
        for i in tails_all:
            b.po_edges.append((i, ridx))
        # join: every event of the threads happens-before the owner's continuation
        for i in range(len(b.evs) - 1):
            if i not in init_events:
                b.po_edges.append((i, ridx))
        b.op(0, 99, REPS[rep]["drop"], [ridx], dfin, False, "owner-drop")
    return b, init_events, tails_all


def q_events(b, G, hb):
    evs = b.evs
    n = len(evs)
    buf_acc = [i for i in range(n) if evs[i].kind in ("N:READ_BUF", "N:WRITE_BUF", "N:TAKE_BUF")]
    buf_wr = [i for i in range(n) if evs[i].kind in ("N:WRITE_BUF", "N:TAKE_BUF")]
    free_buf = [i for i in range(n) if evs[i].kind == "N:FREE_BUF"]
    free_ctl = [i for i in range(n) if evs[i].kind == "N:FREE_CTRL"]
    alloc = [i for i in range(n) if evs[i].kind == "N:ALLOC_CTRL"]
    take = [i for i in range(n) if evs[i].kind == "N:TAKE_BUF"]
    atom = [i for i in range(n) if evs[i].kind in ("R", "W", "U", "CAS")]
    Q = {}
    Q["uaf"] = Or([And(G[a], G[f], Not(hb[a][f])) for a in buf_acc for f in free_buf if a != f and not (evs[a].tid == evs[f].tid and evs[a].opidx == evs[f].opidx and evs[a].kind == "N:TAKE_BUF")] +
                  [And(G[a], G[f], evs[a].loc == evs[f].obj, Not(hb[a][f])) for a in atom for f in free_ctl if evs[f].obj is not None and evs[a].loc is not None] + [BoolVal(False)])
    Q["race"] = Or([And(G[a], G[c], Not(hb[a][c]), Not(hb[c][a])) for a in buf_wr for c in buf_acc if a != c and evs[a].tid != evs[c].tid] +
                   [And(G[a], G[x], evs[x].loc == evs[a].obj, Not(hb[a][x])) for a in alloc for x in atom if evs[a].obj is not None and evs[x].tid != evs[a].tid] + [BoolVal(False)])
    Q["free2"] = Or([And(G[i], G[j]) for i, j in itertools.combinations(free_buf, 2)] +
                    [And(G[i], G[j], evs[i].obj == evs[j].obj) for i, j in itertools.combinations(free_ctl, 2) if evs[i].obj is not None and evs[j].obj is not None] + [BoolVal(False)])
    Q["leak"] = Or([And([Not(G[i]) for i in free_buf]) if free_buf else BoolVal(False)] +
                   [And(G[a], And([Not(And(G[f], evs[f].obj == evs[a].obj)) for f in free_ctl if evs[f].obj is not None])) for a in alloc if evs[a].obj is not None])
    Q["excl"] = Or([And(G[i], G[j]) for i, j in itertools.combinations(take, 2) if (evs[i].tid, evs[i].opidx) != (evs[j].tid, evs[j].opidx)] + [BoolVal(False)])
    return Q


WANT = {"C05": ["free2", "leak", "excl", "uaf"], "C06": ["uaf", "race"]}[PROP]   # uaf under C05 too: "freed ... after the last handle is gone"
progs = programs(TIER, SEED)
if os.environ.get("RC11_ONLY"):
    progs = [p for p in progs if os.environ["RC11_ONLY"] in ("%s%s %s" % (p[0], "+promo" if p[2] else "", p[1]))]
report["programs"] = len(progs)


def solve_one(idx):
    """one litmus program: build, encode, vacuity check, queries (runs in a worker process)"""
    (rep, bodies, promotion) = progs[idx]
    out = {"name": "", "inconclusive": [], "violations": [], "queries": 0, "discharged": 0, "solver_s": 0.0, "events": 0, "res": {}}
    name = "%s%s: %s" % (rep, " (unpromoted, shared &Bytes)" if promotion else "", " || ".join("[" + ",".join(b) + "]" for b in bodies))
    out["name"] = name
    try:
        b, init_events, tails = build(rep, bodies, promotion)
        G, hb, rf, mo = encode(b, init_events)
    except mirsym.Unknown as e:
        out["inconclusive"].append("%s: %s" % (name, e))
        return out
    out["events"] = len(b.evs)
    Q = q_events(b, G, hb)
    t1 = time.time()
    b.s.push()
    r0 = b.s.check()
    b.s.pop()
    if r0 != sat:
        out["inconclusive"].append("%s: no consistent execution (encoding vacuous): %s" % (name, r0))
        return out
    for q in WANT:
        b.s.push()
        b.s.add(Q[q])
        b.s.set("timeout", 300000)
        r = b.s.check()
        out["queries"] += 1
        if r == unsat:
            out["discharged"] += 1
            out["res"][q] = "unsat"
        elif r == sat:
            m = b.s.model()
            lines = describe_model(b, m, G, rf)
            fn = os.path.join(OUTDIR, "%s_%s_%d.txt" % (PROP, q, idx))
            open(fn, "w").write("program: %s\nquery: %s (sat = violating execution allowed by RC11)\n\nskeletons:\n%s\n\nexecuted events:\n%s\n" % (
                name, q, "\n".join("  %s: %s" % (REPS[rep][o], "\n      ".join(report["skeletons"][REPS[rep][o]])) for o in sorted(set(x for bb in bodies for x in bb if x != "read"))), "\n".join(lines)))
            out["violations"].append(["%s: query %s is satisfiable" % (name, q), fn])
            out["res"][q] = "SAT"
        else:
            out["inconclusive"].append("%s: query %s: %s" % (name, q, r))
            out["res"][q] = str(r)
        b.s.pop()
    out["solver_s"] = time.time() - t1
    return out


import multiprocessing
nproc = int(os.environ.get("VERIF_JOBS", "12"))
with multiprocessing.Pool(nproc) as pool:
    outs = pool.map(solve_one, range(len(progs)), chunksize=1)
for o in outs:
    report["queries"] += o["queries"]
    report["obligations"] += o["queries"]
    report["discharged"] += o["discharged"]
    report["inconclusive"] += o["inconclusive"]
    report["violations"] += o["violations"]
    report["solver_s"] += o["solver_s"]
    if o["queries"]:
        report["nontrivial"] += 1
    if len(report["samples"]) < 40 and o["queries"]:
        report["samples"].append({"program": o["name"], "events": o["events"], "verdicts": o["res"]})
report["wall_s"] = round(time.time() - T0, 1)
print(json.dumps(report))
