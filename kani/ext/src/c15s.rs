//! C15 (serde part): every visitor entry point of the crate's Deserialize impls is driven by a hand-written
//! Deserializer; a recording Serializer checks serialize_bytes.  Size hints are concrete (they become allocation sizes).
#![cfg(feature = "serde")]

use crate::util::*;
use alloc::string::String;
use alloc::vec::Vec;
use bytes::{Bytes, BytesMut};
use serde::de::{self, Deserialize, Deserializer, SeqAccess, Visitor};
use serde::ser::{self, Serialize, Serializer};

/// error type without any formatting
#[derive(Debug)]
pub struct E;
impl core::fmt::Display for E {
    fn fmt(&self, _f: &mut core::fmt::Formatter<'_>) -> core::fmt::Result {
        Ok(())
    }
}
impl de::Error for E {
    fn custom<T: core::fmt::Display>(_msg: T) -> Self {
        E
    }
}
impl ser::Error for E {
    fn custom<T: core::fmt::Display>(_msg: T) -> Self {
        E
    }
}
impl serde::de::StdError for E {}

pub struct Seq<'a> {
    data: &'a [u8],
    pos: usize,
    hint: Option<usize>,
}
impl<'de, 'a> SeqAccess<'de> for Seq<'a> {
    type Error = E;
    fn next_element_seed<T: de::DeserializeSeed<'de>>(&mut self, seed: T) -> Result<Option<T::Value>, E> {
        if self.pos < self.data.len() {
            let v = self.data[self.pos];
            self.pos += 1;
            seed.deserialize(de::value::U8Deserializer::<E>::new(v)).map(Some)
        } else {
            Ok(None)
        }
    }
    fn size_hint(&self) -> Option<usize> {
        self.hint
    }
}

/// drives one visitor entry point
pub struct De<'a> {
    pub mode: u8,
    pub data: &'a [u8],
    pub hint: Option<usize>,
}
impl<'de> Deserializer<'de> for De<'de> {
    type Error = E;
    fn deserialize_any<V: Visitor<'de>>(self, v: V) -> Result<V::Value, E> {
        match self.mode {
            0 => v.visit_bytes(self.data),
            1 => {
                let mut vec = Vec::with_capacity(3);
                vec.extend_from_slice(self.data);
                v.visit_byte_buf(vec)
            }
            2 => v.visit_borrowed_bytes(self.data),
            3 => v.visit_seq(Seq { data: self.data, pos: 0, hint: self.hint }),
            4 => v.visit_str(unsafe { core::str::from_utf8_unchecked(self.data) }),
            5 => {
                let mut vec = Vec::with_capacity(3);
                vec.extend_from_slice(self.data);
                v.visit_string(unsafe { String::from_utf8_unchecked(vec) })
            }
            _ => v.visit_borrowed_str(unsafe { core::str::from_utf8_unchecked(self.data) }),
        }
    }
    serde::forward_to_deserialize_any! {
        bool i8 i16 i32 i64 i128 u8 u16 u32 u64 u128 f32 f64 char str string bytes byte_buf option unit unit_struct
        newtype_struct seq tuple tuple_struct map struct enum identifier ignored_any
    }
}

/// records what serialize_bytes received; everything else is an error
pub struct Rec {
    pub got: [u8; 4],
    pub n: usize,
}
macro_rules! nope {
    ($($f:ident($t:ty)),*) => { $( fn $f(self, _v: $t) -> Result<(), E> { Err(E) } )* };
}
impl<'r> Serializer for &'r mut Rec {
    type Ok = ();
    type Error = E;
    type SerializeSeq = ser::Impossible<(), E>;
    type SerializeTuple = ser::Impossible<(), E>;
    type SerializeTupleStruct = ser::Impossible<(), E>;
    type SerializeTupleVariant = ser::Impossible<(), E>;
    type SerializeMap = ser::Impossible<(), E>;
    type SerializeStruct = ser::Impossible<(), E>;
    type SerializeStructVariant = ser::Impossible<(), E>;
    nope!(serialize_bool(bool), serialize_i8(i8), serialize_i16(i16), serialize_i32(i32), serialize_i64(i64),
          serialize_u8(u8), serialize_u16(u16), serialize_u32(u32), serialize_u64(u64), serialize_f32(f32),
          serialize_f64(f64), serialize_char(char), serialize_str(&str), serialize_unit_struct(&'static str));
    fn serialize_bytes(self, v: &[u8]) -> Result<(), E> {
        let mut i = 0;
        while i < v.len() && i < 4 {
            self.got[i] = v[i];
            i += 1;
        }
        self.n = v.len();
        Ok(())
    }
    fn serialize_none(self) -> Result<(), E> {
        Err(E)
    }
    fn serialize_some<T: ?Sized + Serialize>(self, _v: &T) -> Result<(), E> {
        Err(E)
    }
    fn serialize_unit(self) -> Result<(), E> {
        Err(E)
    }
    fn serialize_unit_variant(self, _n: &'static str, _i: u32, _v: &'static str) -> Result<(), E> {
        Err(E)
    }
    fn serialize_newtype_struct<T: ?Sized + Serialize>(self, _n: &'static str, _v: &T) -> Result<(), E> {
        Err(E)
    }
    fn serialize_newtype_variant<T: ?Sized + Serialize>(self, _n: &'static str, _i: u32, _v: &'static str, _x: &T) -> Result<(), E> {
        Err(E)
    }
    fn serialize_seq(self, _l: Option<usize>) -> Result<Self::SerializeSeq, E> {
        Err(E)
    }
    fn serialize_tuple(self, _l: usize) -> Result<Self::SerializeTuple, E> {
        Err(E)
    }
    fn serialize_tuple_struct(self, _n: &'static str, _l: usize) -> Result<Self::SerializeTupleStruct, E> {
        Err(E)
    }
    fn serialize_tuple_variant(self, _n: &'static str, _i: u32, _v: &'static str, _l: usize) -> Result<Self::SerializeTupleVariant, E> {
        Err(E)
    }
    fn serialize_map(self, _l: Option<usize>) -> Result<Self::SerializeMap, E> {
        Err(E)
    }
    fn serialize_struct(self, _n: &'static str, _l: usize) -> Result<Self::SerializeStruct, E> {
        Err(E)
    }
    fn serialize_struct_variant(self, _n: &'static str, _i: u32, _v: &'static str, _l: usize) -> Result<Self::SerializeStructVariant, E> {
        Err(E)
    }
}

pub trait Mk {
    fn mk(s: &[u8]) -> Self;
}
impl Mk for Bytes {
    fn mk(s: &[u8]) -> Self {
        Bytes::copy_from_slice(s)
    }
}
impl Mk for BytesMut {
    fn mk(s: &[u8]) -> Self {
        BytesMut::from(s)
    }
}

macro_rules! serde_case {
    ($name:ident, $ty:ty, $mode:expr, $n:expr, $hint:expr, $ascii:expr) => {
        #[kani::proof]
        #[kani::unwind(8)]
        #[kani::stub(core::slice::index::slice_index_fail, stub_slice_index_fail)]
        pub fn $name() {
            // serialize: serialize_bytes receives exactly the contents
            let a: [u8; 3] = kani::any();
            if $ascii {
                assume_ascii(&a);
            }
            let x: $ty = <$ty as Mk>::mk(&a[..$n]);
            let mut rec = Rec { got: [0; 4], n: 99 };
            assert!(x.serialize(&mut rec).is_ok());
            assert!(rec.n == $n);
            if $n > 0 {
                let i = any_below($n);
                assert!(rec.got[i] == a[i]);
            }
            // deserialize what was serialized through one visitor entry point
            let de = De { mode: $mode, data: &rec.got[..rec.n], hint: $hint };
            match <$ty>::deserialize(de) {
                Ok(y) => {
                    assert!(same_bytes(&y, &a[..$n]));
                    core::mem::forget(y);
                }
                Err(_) => assert!(false, "deserialize failed"),
            }
            core::mem::forget(x);
            end_reached!();
        }
    };
}
// @h props=C15 tier=quick group=serde note=Bytes_visit_bytes
serde_case!(c15_serde_bytes_bytes, Bytes, 0, 3, None, false);
// @h props=C15 tier=quick group=serde note=Bytes_visit_byte_buf
serde_case!(c15_serde_bytes_byte_buf, Bytes, 1, 3, None, false);
// @h props=C15 tier=quick group=serde note=Bytes_visit_borrowed_bytes
serde_case!(c15_serde_bytes_borrowed, Bytes, 2, 2, None, false);
// @h props=C15 tier=quick group=serde note=Bytes_visit_seq_hint_None
serde_case!(c15_serde_bytes_seq_none, Bytes, 3, 2, None, false);
// @h props=C15 tier=quick group=serde note=Bytes_visit_seq_hint_exact
serde_case!(c15_serde_bytes_seq_exact, Bytes, 3, 2, Some(2), false);
// @h props=C15 tier=quick group=serde note=Bytes_visit_seq_hint_zero_but_three_elements
serde_case!(c15_serde_bytes_seq_zero, Bytes, 3, 3, Some(0), false);
// @h props=C15 tier=quick group=serde note=Bytes_visit_seq_hint_under-reports(1_of_3)
serde_case!(c15_serde_bytes_seq_under, Bytes, 3, 3, Some(1), false);
// @h props=C15 tier=quick group=serde note=Bytes_visit_seq_hint_over-reports(usize::MAX)
serde_case!(c15_serde_bytes_seq_over, Bytes, 3, 2, Some(usize::MAX), false);
// @h props=C15 tier=quick group=serde note=BytesMut_visit_seq_hint_under-reports(1_of_3)
serde_case!(c15_serde_mut_seq_under, BytesMut, 3, 3, Some(1), false);
// @h props=C15 tier=quick group=serde note=Bytes_visit_str
serde_case!(c15_serde_bytes_str, Bytes, 4, 3, None, true);
// @h props=C15 tier=quick group=serde note=Bytes_visit_string
serde_case!(c15_serde_bytes_string, Bytes, 5, 3, None, true);
// @h props=C15 tier=thorough group=serde note=Bytes_visit_borrowed_str
serde_case!(c15_serde_bytes_bstr, Bytes, 6, 2, None, true);
// @h props=C15 tier=quick group=serde note=BytesMut_visit_bytes
serde_case!(c15_serde_mut_bytes, BytesMut, 0, 3, None, false);
// @h props=C15 tier=quick group=serde note=BytesMut_visit_byte_buf
serde_case!(c15_serde_mut_byte_buf, BytesMut, 1, 3, None, false);
// @h props=C15 tier=quick group=serde note=BytesMut_visit_seq_hint_exact
serde_case!(c15_serde_mut_seq_exact, BytesMut, 3, 2, Some(2), false);
// @h props=C15 tier=thorough group=serde note=BytesMut_visit_seq_hint_None
serde_case!(c15_serde_mut_seq_none, BytesMut, 3, 2, None, false);
// @h props=C15 tier=quick group=serde note=BytesMut_visit_str
serde_case!(c15_serde_mut_str, BytesMut, 4, 2, None, true);
// @h props=C15 tier=quick group=serde note=BytesMut_visit_string
serde_case!(c15_serde_mut_string, BytesMut, 5, 3, None, true);
// @h props=C15 tier=thorough group=serde note=empty_contents_through_every_entry_point
serde_case!(c15_serde_bytes_empty, Bytes, 1, 0, None, false);
