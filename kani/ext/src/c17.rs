//! C17 (F-LIE): misbehaving *safe* trait implementations handed to every consumer in the crate.  Every answer of the
//! liar is a fresh symbolic value per call; the verdict is memory safety only (--prove-safety-only: panics and wrong
//! results are allowed by the property), loops are explored for the first k iterations without unwinding assertions
//! (a liar may keep a consumer looping forever, which the property allows).
use crate::util::*;
use alloc::boxed::Box;
use alloc::vec::Vec;
use bytes::{Buf, BufMut, Bytes, BytesMut};

/// remaining(): any value in 0..=12 or usize::MAX; chunk(): any sub-slice (possibly empty) of a real 8-byte array;
/// advance(): ignores the request, or panics
pub struct LyingBuf {
    pub mem: [u8; 8],
}
impl LyingBuf {
    pub fn new() -> Self {
        LyingBuf { mem: kani::any() }
    }
}
impl Buf for LyingBuf {
    fn remaining(&self) -> usize {
        let r: usize = kani::any();
        kani::assume(r <= 12 || r == usize::MAX);
        r
    }
    fn chunk(&self) -> &[u8] {
        let s: usize = kani::any();
        let l: usize = kani::any();
        kani::assume(s <= 8 && l <= 8 - s);
        &self.mem[s..s + l]
    }
    fn advance(&mut self, _cnt: usize) {
        let p: bool = kani::any();
        if p {
            panic!("lying advance panics");
        }
    }
}

/// assertion that survives --prove-safety-only: a violated condition becomes a NULL dereference
pub fn safety_assert(c: bool) {
    if !c {
        unsafe {
            let _ = core::ptr::read_volatile(core::ptr::null::<u8>());
        }
    }
}

macro_rules! lie {
    ($name:ident, |$b:ident| $body:block) => {
        #[kani::proof]
        #[kani::unwind(5)]
        #[kani::stub(core::slice::index::slice_index_fail, stub_slice_index_fail)]
        pub fn $name() {
            let mut $b = LyingBuf::new();
            $body;
            end_reached!();
        }
    };
}

// ---------------------------------------------------------------------------------- default getter families
// @h props=C17,C02 tier=quick flags=safety,nounwind group=lie note=get_u8/get_u16/get_u32_le_over_a_lying_Buf
lie!(c17_get_small, |b| {
    let which: u8 = kani::any();
    match which {
        0 => {
            let _ = b.get_u8();
        }
        1 => {
            let _ = b.get_u16();
        }
        2 => {
            let _ = b.try_get_u16_le();
        }
        _ => {
            let _ = b.get_u32_le();
        }
    }
});
// @h props=C17,C02 tier=quick flags=safety,nounwind group=lie note=get_u64/get_i128/get_f64_over_a_lying_Buf
lie!(c17_get_wide, |b| {
    let which: u8 = kani::any();
    match which {
        0 => {
            let _ = b.get_u64();
        }
        1 => {
            let _ = b.try_get_i128_le();
        }
        _ => {
            let _ = b.get_f64_ne();
        }
    }
});
// @h props=C17,C02 tier=quick flags=safety,nounwind group=lie note=get_uint/get_int(nbytes_symbolic)_over_a_lying_Buf
lie!(c17_get_var, |b| {
    let nb: usize = kani::any();
    let which: u8 = kani::any();
    match which {
        0 => {
            let _ = b.get_uint(nb);
        }
        1 => {
            let _ = b.try_get_uint_le(nb);
        }
        2 => {
            let _ = b.get_int_ne(nb);
        }
        _ => {
            let _ = b.try_get_int(nb);
        }
    }
});
// @h props=C17,C02 tier=quick flags=safety,nounwind group=lie note=copy_to_slice/try_copy_to_slice_over_a_lying_Buf
lie!(c17_copy_to_slice, |b| {
    let mut dst = [0u8; 5];
    let n = any_len(5);
    let t: bool = kani::any();
    if t {
        let _ = b.try_copy_to_slice(&mut dst[..n]);
    } else {
        b.copy_to_slice(&mut dst[..n]);
    }
});
// @h props=C17,C02 tier=quick flags=safety,nounwind group=lie note=default_copy_to_bytes(3)_over_a_lying_Buf
lie!(c17_copy_to_bytes, |b| {
    let out = b.copy_to_bytes(3);
    core::mem::forget(out);
});
// @h props=C17,C02 tier=quick flags=safety,nounwind group=lie note=chunks_vectored_default/Chain/Take(lifetime_transmute)_over_a_lying_Buf
#[cfg(feature = "std")]
lie!(c17_chunks_vectored, |b| {
    use std::io::IoSlice;
    let e: [u8; 0] = [];
    let tail = [9u8, 8];
    let mut dst = [IoSlice::new(&e), IoSlice::new(&e), IoSlice::new(&e)];
    let d = any_len(3);
    let which: u8 = kani::any();
    match which {
        0 => {
            let n = b.chunks_vectored(&mut dst[..d]);
            // whatever is reported must be readable
            if n > 0 && n <= d && dst[0].len() > 0 {
                let _ = dst[0][dst[0].len() - 1];
            }
        }
        1 => {
            let lim: usize = kani::any();
            let t = (&mut b).take(lim);
            let n = t.chunks_vectored(&mut dst[..d]);
            if n > 0 && n <= d && dst[0].len() > 0 {
                let _ = dst[0][dst[0].len() - 1];
            }
        }
        _ => {
            let c = (&mut b).chain(&tail[..]);
            let n = c.chunks_vectored(&mut dst[..d]);
            if n > 1 && n <= d && dst[1].len() > 0 {
                let _ = dst[1][0];
            }
        }
    }
});
// @h props=C17,C02 tier=quick flags=safety,nounwind group=lie note=Chain/Take_advance/copy_to_bytes_with_a_lying_half
lie!(c17_adapters, |b| {
    let tail = [9u8, 8, 7];
    let which: u8 = kani::any();
    match which {
        0 => {
            let mut c = (&mut b).chain(&tail[..]);
            let n: usize = kani::any();
            c.advance(n);
            let _ = c.chunk().len();
        }
        1 => {
            let mut c = (&tail[..]).chain(&mut b);
            let out = c.copy_to_bytes(4);
            core::mem::forget(out);
        }
        2 => {
            let lim: usize = kani::any();
            let mut t = (&mut b).take(lim);
            let ch = t.chunk();
            if ch.len() > 0 {
                let _ = ch[ch.len() - 1];
            }
            let n: usize = kani::any();
            t.advance(n);
        }
        _ => {
            let lim: usize = kani::any();
            let mut t = (&mut b).take(lim);
            let out = t.copy_to_bytes(2);
            core::mem::forget(out);
        }
    }
});
// @h props=C17,C02 tier=quick flags=safety,nounwind group=lie note=IntoIter::next_and_Reader::read/fill_buf/consume_over_a_lying_Buf
#[cfg(feature = "std")]
lie!(c17_iter_reader, |b| {
    use std::io::{BufRead, Read};
    let which: u8 = kani::any();
    match which {
        0 => {
            let mut it = bytes::buf::IntoIter::new(b);
            let _ = it.next();
            let _ = it.next();
            let _ = it.size_hint();
        }
        1 => {
            let mut r = b.reader();
            let mut dst = [0u8; 4];
            let n = any_len(4);
            let _ = r.read(&mut dst[..n]);
        }
        _ => {
            let mut r = b.reader();
            if let Ok(c) = r.fill_buf() {
                if c.len() > 0 {
                    let _ = c[c.len() - 1];
                }
            }
            r.consume(kani::any());
        }
    }
});

// ---------------------------------------------------------------------------------- BufMut::put(lying Buf)
// @h props=C17,C02 tier=quick flags=safety,nounwind group=lie note=default_put(lying_Buf)_into_&mut[u8]_with_guards
lie!(c17_put_slice_target, |b| {
    let mut mem = [0xA5u8; 8];
    {
        let mut w: &mut [u8] = &mut mem[2..6];
        w.put(&mut b);
    }
    // guards: whatever the liar said, nothing outside the 4-byte window was written
    safety_assert(mem[0] == 0xA5 && mem[1] == 0xA5 && mem[6] == 0xA5 && mem[7] == 0xA5);
});
// @h props=C17,C02 tier=quick flags=safety,nounwind group=lie timeout=1500 note=Vec::put(lying_Buf)
lie!(c17_put_vec, |b| {
    let mut v: Vec<u8> = Vec::with_capacity(4);
    v.put(&mut b);
    let l = v.len();
    if l > 0 {
        let _ = v[l - 1];
    }
    core::mem::forget(v);
});
// @h props=C17,C02 tier=quick flags=safety,nounwind group=lie timeout=1500 note=BytesMut::put(lying_Buf)_and_extend_from_slice_of_its_chunks
lie!(c17_put_bytesmut, |b| {
    let mut m = BytesMut::with_capacity(4);
    m.put(&mut b);
    let l = m.len();
    if l > 0 {
        let _ = m[l - 1];
    }
    safety_assert(m.len() <= m.capacity());
    core::mem::forget(m);
});

// ---------------------------------------------------------------------------------- owners and iterators
pub struct LyingOwner {
    pub a: [u8; 4],
    pub b: [u8; 2],
}
impl AsRef<[u8]> for LyingOwner {
    fn as_ref(&self) -> &[u8] {
        // a different answer per call: either array, any sub-range, or a panic
        let which: u8 = kani::any();
        if which == 2 {
            panic!("lying as_ref panics");
        }
        let s: usize = kani::any();
        let l: usize = kani::any();
        if which == 0 {
            kani::assume(s <= 4 && l <= 4 - s);
            &self.a[s..s + l]
        } else {
            kani::assume(s <= 2 && l <= 2 - s);
            &self.b[s..s + l]
        }
    }
}

// @h props=C17,C02,C03 tier=quick flags=safety,leak group=lie note=Bytes::from_owner(lying_AsRef)_then_clone/slice/into_vec/into_mut/drop
#[kani::proof]
#[kani::unwind(6)]
#[kani::stub(core::slice::index::slice_index_fail, stub_slice_index_fail)]
pub fn c17_lying_owner() {
    let o = LyingOwner { a: kani::any(), b: kani::any() };
    let b = Bytes::from_owner(o);
    let l = b.len();
    if l > 0 {
        let _ = b[l - 1];
    }
    let c = b.clone();
    let which: u8 = kani::any();
    match which {
        0 => {
            let x = any_len(4);
            let y = any_len(4);
            if x <= y && y <= l {
                let s = b.slice(x..y);
                if s.len() > 0 {
                    let _ = s[0];
                }
            }
        }
        1 => {
            let v: Vec<u8> = c.into();
            assert!(v.len() == l);
            return;
        }
        _ => {
            let m: BytesMut = c.into();
            assert!(m.len() == l);
            return;
        }
    }
    drop(b);
    if l > 0 {
        let _ = c[0];
    }
    end_reached!();
}

pub struct LyingIter {
    pub left: u8,
}
impl Iterator for LyingIter {
    type Item = u8;
    fn next(&mut self) -> Option<u8> {
        if self.left == 0 {
            None
        } else {
            self.left -= 1;
            Some(kani::any())
        }
    }
    fn size_hint(&self) -> (usize, Option<usize>) {
        // arbitrary, unrelated to what next() will do (small or gigantic)
        let lo: usize = kani::any();
        kani::assume(lo <= 6);
        let hi: Option<usize> = if kani::any() { None } else { Some(kani::any()) };
        (lo, hi)
    }
}

// @h props=C17,C02 tier=quick flags=safety,nounwind group=lie timeout=1500 note=BytesMut::extend/from_iter_and_Bytes::from_iter_with_a_lying_size_hint
#[kani::proof]
#[kani::unwind(5)]
#[kani::stub(core::slice::index::slice_index_fail, stub_slice_index_fail)]
pub fn c17_lying_iter() {
    let left: u8 = kani::any();
    kani::assume(left <= 3);
    let which: u8 = kani::any();
    match which {
        0 => {
            let mut m = BytesMut::with_capacity(2);
            m.extend(LyingIter { left });
            assert!(m.len() == left as usize);
            core::mem::forget(m);
        }
        1 => {
            let m: BytesMut = LyingIter { left }.collect();
            assert!(m.len() == left as usize);
            core::mem::forget(m);
        }
        _ => {
            let b: Bytes = LyingIter { left }.collect();
            assert!(b.len() == left as usize);
            core::mem::forget(b);
        }
    }
    end_reached!();
}

// @h props=C17 tier=quick flags=safety,nounwind group=lie allow=Offset.result|dereference.failure must_fail=Offset.result|dereference.failure note=vacuity_witness:an_out-of-bounds_read_must_be_reported_under_--prove-safety-only
#[kani::proof]
#[kani::unwind(5)]
pub fn c17_witness() {
    let mut b = LyingBuf::new();
    let c = b.chunk();
    // a safety-class failure must be visible under --prove-safety-only: read one byte past a zero-length chunk
    if c.len() == 0 {
        let p = c.as_ptr();
        let v = unsafe { *p.add(9) };
        safety_assert(v == 0 || v != 0);
    }
}
