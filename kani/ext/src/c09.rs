//! C09 (and the Buf side of C12): cursor laws for every `Buf` of the crate, relative to lawful symbolic
//! inner buffers (F-BUF).  A harness builds a buffer `b` together with the byte sequence it must denote
//! (`Model`), checks the state laws, applies a symbolic cursor operation, and checks the laws again.
use crate::symbuf::{StepBuf, SymBuf};
use crate::util::*;
use alloc::boxed::Box;
use alloc::collections::VecDeque;
use bytes::{Buf, BufMut, Bytes, BytesMut};

pub const M: usize = 8;

#[derive(Clone, Copy)]
pub struct Model {
    pub d: [u8; M],
    pub len: usize,
    pub pos: usize,
}

impl Model {
    pub fn of<const N: usize>(b: &SymBuf<N>) -> Model {
        let mut d = [0u8; M];
        macro_rules! cp { ($($i:expr),*) => { $( if $i < N { d[$i] = b.data[$i]; } )* }; }
        cp!(0, 1, 2, 3, 4, 5, 6, 7);
        Model { d, len: b.len, pos: b.pos }
    }
    /// concatenation a ++ b (of the *remaining* bytes of each)
    pub fn concat(a: &Model, b: &Model) -> Model {
        let mut d = [0u8; M];
        let la = a.len - a.pos;
        let lb = b.len - b.pos;
        macro_rules! cp { ($($i:expr),*) => { $(
            if $i < la {
                d[$i] = a.d[a.pos + $i];
            } else if $i - la < lb {
                d[$i] = b.d[b.pos + ($i - la)];
            }
        )* }; }
        cp!(0, 1, 2, 3, 4, 5, 6, 7);
        Model { d, len: la + lb, pos: 0 }
    }
    /// first min(n, remaining) bytes
    pub fn take(&self, n: usize) -> Model {
        let rem = self.len - self.pos;
        let k = if n < rem { n } else { rem };
        Model { d: self.d, len: self.pos + k, pos: self.pos }
    }
    pub fn rem(&self) -> usize {
        self.len - self.pos
    }
}

/// state laws: remaining() is the model length; chunk() is a prefix, empty iff nothing remains
pub fn check_state<B: Buf>(b: &B, m: &Model) {
    let rem = m.rem();
    assert!(b.remaining() == rem);
    assert!(b.has_remaining() == (rem > 0));
    let c = b.chunk();
    assert!(c.len() <= rem);
    assert!((c.len() == 0) == (rem == 0));
    if c.len() > 0 {
        let i = any_below(c.len());
        assert!(c[i] == m.d[m.pos + i]);
    }
}

/// one symbolic cursor operation (in contract), model updated alongside
pub fn step<B: Buf>(b: &mut B, m: &mut Model, ops: u8) {
    let op: u8 = kani::any();
    kani::assume(op < 4 && (ops >> op) & 1 == 1);
    let rem = m.rem();
    match op {
        0 => {
            let n: usize = kani::any();
            kani::assume(n <= rem);
            b.advance(n);
            m.pos += n;
        }
        1 => {
            let mut dst = [0xAAu8; 3];
            let k = any_len(3);
            kani::assume(k <= rem);
            b.copy_to_slice(&mut dst[..k]);
            if k > 0 {
                let i = any_below(k);
                assert!(dst[i] == m.d[m.pos + i]);
            }
            if k < 3 {
                assert!(dst[k] == 0xAA);
            }
            m.pos += k;
        }
        2 => {
            let mut dst = [0xAAu8; 3];
            let k = any_len(3);
            let r = b.try_copy_to_slice(&mut dst[..k]);
            if k <= rem {
                assert!(r.is_ok());
                if k > 0 {
                    let i = any_below(k);
                    assert!(dst[i] == m.d[m.pos + i]);
                }
                m.pos += k;
            } else {
                assert!(r == Err(bytes::TryGetError { requested: k, available: rem }));
            }
        }
        _ => {
            // typed read through the adapter (crosses chunk / adapter boundaries)
            if rem >= 2 {
                let v = b.get_u16_le();
                assert!(v == (m.d[m.pos] as u16) | ((m.d[m.pos + 1] as u16) << 8));
                m.pos += 2;
            }
        }
    }
}

pub const ALL_OPS: u8 = 0b1111;

/// chunks_vectored laws with a destination of symbolic length 0..=3
#[cfg(feature = "std")]
pub fn check_vectored<B: Buf>(b: &B, m: &Model) {
    use std::io::IoSlice;
    static SENTINEL: [u8; 1] = [0xAA];
    let mut dst = [IoSlice::new(&SENTINEL), IoSlice::new(&SENTINEL), IoSlice::new(&SENTINEL)];
    let d = any_len(3);
    let n = b.chunks_vectored(&mut dst[..d]);
    assert!(n <= d);
    let rem = m.rem();
    // concatenation is a prefix of the sequence
    let l0 = if n > 0 { dst[0].len() } else { 0 };
    let l1 = if n > 1 { dst[1].len() } else { 0 };
    let l2 = if n > 2 { dst[2].len() } else { 0 };
    assert!(l0 <= rem && l1 <= rem - l0 && l2 <= rem - l0 - l1);
    if l0 > 0 {
        let i = any_below(l0);
        assert!(dst[0][i] == m.d[m.pos + i]);
    }
    if l1 > 0 {
        let i = any_below(l1);
        assert!(dst[1][i] == m.d[m.pos + l0 + i]);
    }
    if l2 > 0 {
        let i = any_below(l2);
        assert!(dst[2][i] == m.d[m.pos + l0 + l1 + i]);
    }
    // at least one non-empty slice when bytes remain and dst is non-empty
    if rem > 0 && d > 0 {
        assert!(n >= 1 && (l0 + l1 + l2) > 0);
    }
    // dst beyond the returned count is untouched
    let j = any_below(3);
    if j >= n {
        assert!(dst[j].as_ptr() == SENTINEL.as_ptr() && dst[j].len() == 1);
    }
}
#[cfg(not(feature = "std"))]
pub fn check_vectored<B: Buf>(_b: &B, _m: &Model) {}

/// the standard law harness body: state, vectored, one or two operations, state again
pub fn laws<B: Buf>(b: &mut B, m: &mut Model, steps: usize) {
    laws_ops(b, m, steps, ALL_OPS)
}
pub fn laws_ops<B: Buf>(b: &mut B, m: &mut Model, steps: usize, ops: u8) {
    check_state(b, m);
    check_vectored(b, m);
    if steps >= 1 {
        step(b, m, ops);
        check_state(b, m);
    }
    if steps >= 2 {
        step(b, m, ops);
        check_state(b, m);
    }
    check_vectored(b, m);
}

const U: usize = 4;

// ------------------------------------------------------------------------------------------ SymBuf itself (default methods)
// @h props=C09 tier=quick group=buf note=default_methods_over_SymBuf
#[kani::proof]
#[kani::unwind(6)]
#[kani::stub(core::slice::index::slice_index_fail, stub_slice_index_fail)]
pub fn c09_symbuf_defaults() {
    let mut b = SymBuf::<U>::any();
    let mut m = Model::of(&b);
    laws(&mut b, &mut m, 1);
    end_reached!();
}

// @h props=C09 tier=thorough group=buf note=default_methods_over_SymBuf_two_steps
#[kani::proof]
#[kani::unwind(6)]
#[kani::stub(core::slice::index::slice_index_fail, stub_slice_index_fail)]
pub fn c09_symbuf_defaults_2() {
    let mut b = SymBuf::<U>::any();
    let mut m = Model::of(&b);
    laws(&mut b, &mut m, 2);
    end_reached!();
}

// ------------------------------------------------------------------------------------------ Chain
// @h props=C09,C12 tier=quick group=buf note=Chain<SymBuf,SymBuf>
#[kani::proof]
#[kani::unwind(6)]
#[kani::stub(core::slice::index::slice_index_fail, stub_slice_index_fail)]
pub fn c09_chain_laws() {
    let a = SymBuf::<3>::any();
    let b = SymBuf::<3>::any();
    let mut m = Model::concat(&Model::of(&a), &Model::of(&b));
    let a_len = a.len;
    let mut c = a.chain(b);
    laws(&mut c, &mut m, 1);
    // C12: consumption is split a-first: a is consumed before any byte of b
    let consumed = m.pos;
    let exp_a = if consumed < a_len { consumed } else { a_len };
    assert!(c.first_ref().pos == exp_a);
    assert!(c.last_ref().pos == consumed - exp_a);
    let (a2, b2) = c.into_inner();
    assert!(a2.pos == exp_a && b2.pos == consumed - exp_a);
    kani::cover!(consumed > a_len && a_len > 0, "operation crossed from a into b");
    kani::cover!(a2.remaining() > 0 && b2.remaining() > 0, "both halves non-empty afterwards");
    end_reached!();
}

// @h props=C09,C12 tier=thorough group=buf note=Chain<SymBuf,SymBuf>_two_steps
#[kani::proof]
#[kani::unwind(6)]
#[kani::stub(core::slice::index::slice_index_fail, stub_slice_index_fail)]
pub fn c09_chain_laws_2() {
    let a = SymBuf::<3>::any();
    let b = SymBuf::<3>::any();
    let mut m = Model::concat(&Model::of(&a), &Model::of(&b));
    let mut c = a.chain(b);
    laws(&mut c, &mut m, 2);
    end_reached!();
}

// ------------------------------------------------------------------------------------------ Take
// @h props=C09,C12 tier=quick group=buf note=Take<SymBuf>_limit_over_all_usize
#[kani::proof]
#[kani::unwind(6)]
#[kani::stub(core::slice::index::slice_index_fail, stub_slice_index_fail)]
pub fn c09_take_laws() {
    let inner = SymBuf::<U>::any();
    let lim: usize = kani::any();
    let mut m = Model::of(&inner).take(lim);
    let rem0 = m.rem();
    let mut t = inner.take(lim);
    assert!(t.limit() == lim);
    laws(&mut t, &mut m, 1);
    // C12: limit and inner advanced by exactly the bytes that went through
    let through = rem0 - m.rem();
    assert!(t.limit() == lim - through);
    assert!(t.get_ref().pos == through);
    let inner2 = t.into_inner();
    assert!(inner2.pos == through);
    kani::cover!(lim == 0, "limit 0");
    kani::cover!(lim == usize::MAX, "limit usize::MAX");
    kani::cover!(lim < U && through == lim && lim > 0, "limit reached inside the data");
    end_reached!();
}

// @h props=C09,C12 tier=quick group=buf note=Take::set_limit_mid_stream
#[kani::proof]
#[kani::unwind(6)]
#[kani::stub(core::slice::index::slice_index_fail, stub_slice_index_fail)]
pub fn c09_take_set_limit() {
    let inner = SymBuf::<U>::any();
    let lim: usize = kani::any();
    let full = Model::of(&inner);
    let mut m = full.take(lim);
    let mut t = inner.take(lim);
    step(&mut t, &mut m, 0b0011);
    check_state(&t, &m);
    let lim2: usize = kani::any();
    t.set_limit(lim2);
    assert!(t.limit() == lim2);
    // after set_limit the adapter exposes min(lim2, what the inner still has)
    let mut m2 = Model { d: full.d, len: full.len, pos: m.pos }.take(lim2);
    laws_ops(&mut t, &mut m2, 1, 0b1001);
    kani::cover!(lim2 > lim, "limit raised mid-stream");
    end_reached!();
}

// ------------------------------------------------------------------------------------------ forwarding wrappers
// @h props=C09 tier=quick group=buf note=&mut_SymBuf
#[kani::proof]
#[kani::unwind(6)]
#[kani::stub(core::slice::index::slice_index_fail, stub_slice_index_fail)]
pub fn c09_refmut_laws() {
    let mut inner = SymBuf::<U>::any();
    let mut m = Model::of(&inner);
    {
        let mut r = &mut inner;
        laws(&mut r, &mut m, 1);
    }
    // the wrapped buffer itself moved
    assert!(inner.pos == m.pos);
    end_reached!();
}

// @h props=C09 tier=quick group=buf note=Box<SymBuf>
#[kani::proof]
#[kani::unwind(6)]
#[kani::stub(core::slice::index::slice_index_fail, stub_slice_index_fail)]
pub fn c09_box_laws() {
    let inner = SymBuf::<U>::any();
    let mut m = Model::of(&inner);
    let mut bx: Box<SymBuf<U>> = Box::new(inner);
    laws(&mut bx, &mut m, 1);
    assert!(bx.pos == m.pos);
    end_reached!();
}

// @h props=C09 tier=quick group=buf note=Box<dyn_Buf>
#[kani::proof]
#[kani::unwind(6)]
#[kani::stub(core::slice::index::slice_index_fail, stub_slice_index_fail)]
pub fn c09_box_dyn_laws() {
    let inner = StepBuf::<U, 2> { data: kani::any(), len: any_len(U), pos: 0 };
    let mut d = [0u8; M];
    let mut i = 0;
    while i < U {
        d[i] = inner.data[i];
        i += 1;
    }
    let mut m = Model { d, len: inner.len, pos: 0 };
    let mut bx: Box<dyn Buf> = Box::new(inner);
    check_state(&bx, &m);
    step(&mut bx, &mut m, 0b0111);
    check_state(&bx, &m);
    end_reached!();
}

// ------------------------------------------------------------------------------------------ leaves
fn slice_model(a: &[u8; U], len: usize) -> Model {
    let mut d = [0u8; M];
    let mut i = 0;
    while i < U {
        d[i] = a[i];
        i += 1;
    }
    Model { d, len, pos: 0 }
}

// @h props=C09 tier=quick group=buf note=&[u8]
#[kani::proof]
#[kani::unwind(6)]
#[kani::stub(core::slice::index::slice_index_fail, stub_slice_index_fail)]
pub fn c09_slice_laws() {
    let a: [u8; U] = kani::any();
    let len = any_len(U);
    let mut m = slice_model(&a, len);
    let mut b: &[u8] = &a[..len];
    laws(&mut b, &mut m, 2);
    end_reached!();
}

macro_rules! bytes_leaf {
    ($name:ident, $rep:expr, $tier:ident) => {
        #[kani::proof]
        #[kani::unwind(6)]
        #[kani::stub(core::slice::index::slice_index_fail, stub_slice_index_fail)]
        pub fn $name() {
            let a: [u8; U] = kani::any();
            let len = any_len(U);
            let mut m = slice_model(&a, len);
            let full = mk_bytes($rep, &a);
            let mut b = full.slice(..len);
            laws(&mut b, &mut m, 1);
            // copy_to_bytes (Bytes' own zero-copy implementation)
            let k = any_len(U);
            kani::assume(k <= m.rem());
            let part = b.copy_to_bytes(k);
            assert!(same_bytes(&part, &m.d[m.pos..m.pos + k]));
            m.pos += k;
            check_state(&b, &m);
            end_reached!();
        }
    };
}
// @h props=C09 tier=quick group=buf note=Bytes_shared
bytes_leaf!(c09_bytes_shared_laws, Rep::Shared, quick);
// @h props=C09 tier=thorough group=buf note=Bytes_static
bytes_leaf!(c09_bytes_static_laws, Rep::Static, thorough);
// @h props=C09 tier=thorough group=buf note=Bytes_promotable
bytes_leaf!(c09_bytes_promo_laws, Rep::Promo, thorough);

// @h props=C09 tier=quick group=buf note=BytesMut_vec_with_offset
#[kani::proof]
#[kani::unwind(6)]
#[kani::stub(core::slice::index::slice_index_fail, stub_slice_index_fail)]
pub fn c09_bytesmut_laws() {
    let a: [u8; U] = kani::any();
    let len = any_len(U);
    let mut m = slice_model(&a, len);
    let mut b = mk_bm(MRep::VecOff, &a);
    b.truncate(len);
    laws(&mut b, &mut m, 1);
    let k = any_len(U);
    kani::assume(k <= m.rem());
    let part = b.copy_to_bytes(k);
    assert!(same_bytes(&part, &m.d[m.pos..m.pos + k]));
    m.pos += k;
    check_state(&b, &m);
    core::mem::forget(part);
    end_reached!();
}

// @h props=C09 tier=quick group=buf note=Cursor<&[u8]>_position_over_all_u64
#[cfg(feature = "std")]
#[kani::proof]
#[kani::unwind(6)]
#[kani::stub(core::slice::index::slice_index_fail, stub_slice_index_fail)]
pub fn c09_cursor_laws() {
    let a: [u8; U] = kani::any();
    let len = any_len(U);
    let p: u64 = kani::any();
    let mut c = std::io::Cursor::new(&a[..len]);
    c.set_position(p);
    let mut m = slice_model(&a, len);
    m.pos = if p >= len as u64 { len } else { p as usize };
    laws(&mut c, &mut m, 1);
    if p <= len as u64 {
        assert!(c.position() == m.pos as u64);
    } else {
        // beyond the end: the sequence is empty and advance(0) must leave the position alone
        assert!(c.position() == p);
    }
    kani::cover!(p > len as u64, "position beyond the end");
    kani::cover!(p > u32::MAX as u64, "position beyond u32");
    end_reached!();
}

macro_rules! vecdeque_case {
    ($name:ident, $rot:expr, $len:expr) => {
        #[kani::proof]
        #[kani::unwind(7)]
        #[kani::stub(core::slice::index::slice_index_fail, stub_slice_index_fail)]
        pub fn $name() {
            // ring of capacity 4, head rotated by $rot, $len symbolic bytes: for rot + len > 4 the contents wrap
            // around the end of the ring and as_slices() has two parts.  Shapes are concrete (VecDeque is real
            // alloc code and a heap-backed container), contents and the advance count are symbolic.
            let a: [u8; 4] = kani::any();
            let mut q: VecDeque<u8> = VecDeque::with_capacity(4);
            let mut i = 0;
            while i < $rot {
                q.push_back(0xEE);
                i += 1;
            }
            i = 0;
            while i < $rot {
                q.pop_front();
                i += 1;
            }
            i = 0;
            while i < $len {
                q.push_back(a[i]);
                i += 1;
            }
            let mut m = slice_model(&a, $len);
            let wraps = q.as_slices().1.len() > 0;
            assert!(wraps == ($rot + $len > 4));
            check_state(&q, &m);
            check_vectored(&q, &m);
            let n = any_len($len);
            q.advance(n);
            m.pos += n;
            check_state(&q, &m);
            check_vectored(&q, &m);
            end_reached!();
        }
    };
}
// @h props=C09 tier=quick group=buf note=VecDeque<u8>_wrapped_rot3_len3
vecdeque_case!(c09_vecdeque_wrapped, 3, 3);
// @h props=C09 tier=thorough group=buf note=VecDeque<u8>_contiguous_rot1_len3
vecdeque_case!(c09_vecdeque_contiguous, 1, 3);
// @h props=C09 tier=thorough group=buf note=VecDeque<u8>_wrapped_rot2_len4
vecdeque_case!(c09_vecdeque_wrapped_full, 2, 4);

// ------------------------------------------------------------------------------------------ IntoIter
// @h props=C09 tier=quick group=buf note=IntoIter<Chain<SymBuf,SymBuf>>
#[kani::proof]
#[kani::unwind(8)]
#[kani::stub(core::slice::index::slice_index_fail, stub_slice_index_fail)]
pub fn c09_into_iter() {
    let a = SymBuf::<3>::any();
    let b = SymBuf::<3>::any();
    let m = Model::concat(&Model::of(&a), &Model::of(&b));
    let mut it = a.chain(b).into_iter();
    let mut k = 0;
    while k < 7 {
        let (lo, hi) = it.size_hint();
        assert!(lo == m.len - k.min(m.len) && hi == Some(lo));
        match it.next() {
            Some(x) => {
                assert!(k < m.len && x == m.d[k]);
            }
            None => {
                assert!(k >= m.len);
            }
        }
        k += 1;
    }
    end_reached!();
}

// ------------------------------------------------------------------------------------------ default copy_to_bytes
macro_rules! ctb {
    ($name:ident, $k:expr) => {
        #[kani::proof]
        #[kani::unwind(6)]
        #[kani::stub(core::slice::index::slice_index_fail, stub_slice_index_fail)]
        pub fn $name() {
            // default copy_to_bytes (BytesMut::with_capacity(len) + put(take(len)) + freeze); the length is
            // concrete per harness because it becomes an allocation size
            let mut b = SymBuf::<U>::any();
            let mut m = Model::of(&b);
            kani::assume(m.rem() >= $k);
            let out = b.copy_to_bytes($k);
            assert!(same_bytes(&out, &m.d[m.pos..m.pos + $k]));
            m.pos += $k;
            check_state(&b, &m);
            core::mem::forget(out);
            end_reached!();
        }
    };
}
// @h props=C09 tier=quick group=buf note=default_copy_to_bytes(0)
ctb!(c09_copy_to_bytes_default_0, 0);
// @h props=C09 tier=quick group=buf note=default_copy_to_bytes(2)
ctb!(c09_copy_to_bytes_default_2, 2);
// @h props=C09 tier=thorough group=buf note=default_copy_to_bytes(4)
ctb!(c09_copy_to_bytes_default_4, 4);

// @h props=C09,C12 tier=quick group=buf note=Chain::copy_to_bytes_straddling(first_half_with_several_chunks)
#[kani::proof]
#[kani::unwind(6)]
#[kani::stub(core::slice::index::slice_index_fail, stub_slice_index_fail)]
pub fn c09_chain_copy_to_bytes() {
    // the first half is a lawful buffer made of 1-byte chunks (so that what is left of it when the copy crosses into b
    // may still consist of several chunks), the second half has symbolic chunking
    let a = StepBuf::<3, 1> { data: kani::any(), len: any_len(3), pos: 0 };
    let b = SymBuf::<2>::any();
    let ma = Model { d: [a.data[0], a.data[1], a.data[2], 0, 0, 0, 0, 0], len: a.len, pos: 0 };
    let mut m = Model::concat(&ma, &Model::of(&b));
    kani::assume(m.rem() >= 3);
    let a_len = a.len;
    let mut c = a.chain(b);
    let out = c.copy_to_bytes(3);
    assert!(same_bytes(&out, &m.d[0..3]));
    m.pos += 3;
    check_state(&c, &m);
    core::mem::forget(out);
    kani::cover!(a_len == 2, "two chunks of a, then one byte of b");
    kani::cover!(a_len == 1, "one byte of a, two of b");
    end_reached!();
}

// @h props=C09,C12 tier=quick group=buf note=Take::copy_to_bytes
#[kani::proof]
#[kani::unwind(6)]
#[kani::stub(core::slice::index::slice_index_fail, stub_slice_index_fail)]
pub fn c09_take_copy_to_bytes() {
    let inner = SymBuf::<U>::any();
    let lim: usize = kani::any();
    let mut m = Model::of(&inner).take(lim);
    kani::assume(m.rem() >= 2);
    let mut t = inner.take(lim);
    let out = t.copy_to_bytes(2);
    assert!(same_bytes(&out, &m.d[0..2]));
    m.pos += 2;
    check_state(&t, &m);
    assert!(t.limit() == lim - 2);
    core::mem::forget(out);
    end_reached!();
}

// ------------------------------------------------------------------------------------------ nestings (depth 3 / 4)
// @h props=C09,C12 tier=quick group=buf note=Take<Chain<SymBuf,Take<SymBuf>>>_depth3_advance_and_vectored
#[kani::proof]
#[kani::unwind(6)]
#[kani::stub(core::slice::index::slice_index_fail, stub_slice_index_fail)]
pub fn c09_nest_take_chain_take_adv() {
    let a = SymBuf::<2>::any();
    let b = SymBuf::<2>::any();
    let l1: usize = kani::any();
    let l2: usize = kani::any();
    let mb = Model::of(&b).take(l1);
    let mut m = Model::concat(&Model::of(&a), &mb).take(l2);
    let mut n = a.chain(b.take(l1)).take(l2);
    laws_ops(&mut n, &mut m, 1, 0b0001);
    end_reached!();
}

// @h props=C09,C12 tier=thorough group=buf note=Take<Chain<SymBuf,Take<SymBuf>>>_depth3
#[kani::proof]
#[kani::unwind(6)]
#[kani::stub(core::slice::index::slice_index_fail, stub_slice_index_fail)]
pub fn c09_nest_take_chain_take() {
    let a = SymBuf::<3>::any();
    let b = SymBuf::<3>::any();
    let l1: usize = kani::any();
    let l2: usize = kani::any();
    let mb = Model::of(&b).take(l1);
    let mut m = Model::concat(&Model::of(&a), &mb).take(l2);
    let mut n = a.chain(b.take(l1)).take(l2);
    laws(&mut n, &mut m, 1);
    end_reached!();
}

// @h props=C09,C12 tier=thorough group=buf note=Chain<&mut_Take<Bytes>,Box<Chain<&[u8],BytesMut>>>_depth4_real_leaves
#[kani::proof]
#[kani::unwind(6)]
#[kani::stub(core::slice::index::slice_index_fail, stub_slice_index_fail)]
pub fn c09_nest_real_leaves() {
    let x: [u8; 2] = kani::any();
    let y: [u8; 2] = kani::any();
    let z: [u8; 2] = kani::any();
    let lim = any_len(3);
    let mut d = [0u8; M];
    let k = if lim < 2 { lim } else { 2 };
    let mut i = 0;
    while i < 2 {
        if i < k {
            d[i] = x[i];
        }
        d[k + i] = y[i];
        d[k + 2 + i] = z[i];
        i += 1;
    }
    let mut m = Model { d, len: k + 4, pos: 0 };
    let mut t = mk_bytes(Rep::Shared, &x).take(lim);
    let inner = Box::new((&y[..]).chain(mk_bm(MRep::Vec, &z)));
    let mut n = (&mut t).chain(inner);
    laws(&mut n, &mut m, 1);
    end_reached!();
}

// @h props=C09,C12 tier=quick group=buf note=Take<Chain<Chain<&[u8],&[u8]>,&[u8]>>_chunks_vectored_three_inner_slices
#[cfg(feature = "std")]
#[kani::proof]
#[kani::unwind(6)]
#[kani::stub(core::slice::index::slice_index_fail, stub_slice_index_fail)]
pub fn c09_take_chain3_vectored() {
    // the inner buffer reports up to three slices; the limit may fall inside any of them and the destination
    // may be shorter than the number of inner slices
    let x: [u8; 2] = kani::any();
    let y: [u8; 2] = kani::any();
    let z: [u8; 2] = kani::any();
    let (lx, ly, lz) = (any_len(2), any_len(2), any_len(2));
    let lim: usize = kani::any();
    let mx = Model { d: [x[0], x[1], 0, 0, 0, 0, 0, 0], len: lx, pos: 0 };
    let my = Model { d: [y[0], y[1], 0, 0, 0, 0, 0, 0], len: ly, pos: 0 };
    let mz = Model { d: [z[0], z[1], 0, 0, 0, 0, 0, 0], len: lz, pos: 0 };
    let m = Model::concat(&Model::concat(&mx, &my), &mz).take(lim);
    let t = (&x[..lx]).chain(&y[..ly]).chain(&z[..lz]).take(lim);
    check_state(&t, &m);
    check_vectored(&t, &m);
    kani::cover!(lx == 2 && ly == 2 && lz == 2 && lim == 5, "limit inside the third inner slice");
    end_reached!();
}

// ------------------------------------------------------------------------------------------ out of contract: advance past the end
macro_rules! ooc_advance {
    ($name:ident, $mk:expr) => {
        #[kani::proof]
        #[kani::unwind(6)]
        #[kani::stub(core::slice::index::slice_index_fail, stub_slice_index_fail)]
        pub fn $name() {
            let a: [u8; U] = kani::any();
            let len = any_len(U);
            let mut b = $mk(&a, len);
            let rem = b.remaining();
            let n: usize = kani::any();
            kani::assume(n > rem);
            end_reached!();
            b.advance(n);
            assert!(false, "RETURNED: advance past the end must panic");
        }
    };
}
fn mk_slice<'a>(a: &'a [u8; U], len: usize) -> &'a [u8] {
    &a[..len]
}
fn mk_symbuf(a: &[u8; U], len: usize) -> SymBuf<U> {
    SymBuf { data: *a, len, pos: 0, cuts: kani::any(), advances: 0 }
}
fn mk_b(a: &[u8; U], len: usize) -> Bytes {
    mk_bytes(Rep::Shared, a).slice(..len)
}
fn mk_m(a: &[u8; U], len: usize) -> BytesMut {
    let mut m = mk_bm(MRep::VecOff, a);
    m.truncate(len);
    m
}
fn mk_chain(a: &[u8; U], len: usize) -> bytes::buf::Chain<SymBuf<U>, SymBuf<U>> {
    let cut = any_len(U);
    kani::assume(cut <= len);
    let mut second = mk_symbuf(a, len);
    second.pos = cut;
    mk_symbuf(a, cut).chain(second)
}
fn mk_take(a: &[u8; U], len: usize) -> bytes::buf::Take<SymBuf<U>> {
    mk_symbuf(a, U).take(len)
}
#[cfg(feature = "std")]
fn mk_cursor<'a>(a: &'a [u8; U], len: usize) -> std::io::Cursor<&'a [u8]> {
    let mut c = std::io::Cursor::new(&a[..len]);
    c.set_position(kani::any());
    c
}
// @h props=C09,C13 tier=quick group=buf allow=@PANIC@ must_fail=@PANIC@ note=advance_past_end_&[u8]
ooc_advance!(c09_ooc_advance_slice, mk_slice);
// @h props=C09,C13 tier=quick group=buf allow=@PANIC@ must_fail=@PANIC@ note=advance_past_end_Bytes
ooc_advance!(c09_ooc_advance_bytes, mk_b);
// @h props=C09,C13 tier=quick group=buf allow=@PANIC@ must_fail=@PANIC@ note=advance_past_end_BytesMut
ooc_advance!(c09_ooc_advance_bytesmut, mk_m);
// @h props=C09,C13 tier=quick group=buf allow=SymBuf::advance.past.the.end must_fail=SymBuf::advance.past.the.end note=advance_past_end_Chain
ooc_advance!(c09_ooc_advance_chain, mk_chain);
// @h props=C09,C13 tier=quick group=buf allow=SymBuf::advance.past.the.end|assertion.failed:.cnt.<=.self.limit must_fail=advance|limit note=advance_past_end_Take
ooc_advance!(c09_ooc_advance_take, mk_take);
// @h props=C09,C13 tier=quick group=buf allow=@PANIC@ must_fail=@PANIC@ note=advance_past_end_Cursor
#[cfg(feature = "std")]
ooc_advance!(c09_ooc_advance_cursor, mk_cursor);

// @h props=C09 tier=quick flags=witness group=buf
#[kani::proof]
#[kani::unwind(6)]
pub fn c09_witness() {
    let a = SymBuf::<3>::any();
    let b = SymBuf::<3>::any();
    let mut m = Model::concat(&Model::of(&a), &Model::of(&b));
    let mut c = a.chain(b);
    laws(&mut c, &mut m, 1);
    assert!(false, "VACUITY_WITNESS");
}
