//! C11 (bulk writes: put_slice / put_bytes / put(Buf), chunk_mut laws) and the BufMut / io side of C12
//! (Limit, Chain as a writer, Writer, Reader).  Hand-written; the typed putters are generated (gen_c11).
use crate::symbuf::{StepBuf, SymBuf, SymBufMut};
use crate::util::*;
use alloc::boxed::Box;
use alloc::vec::Vec;
use bytes::buf::UninitSlice;
use bytes::{Buf, BufMut, Bytes, BytesMut};

const G: u8 = 0xA5;
const N: usize = 8;

/// chunk_mut / remaining_mut state laws for a fixed-size target
fn check_mut_state<B: BufMut>(b: &mut B, expect_rem: usize) {
    assert!(b.remaining_mut() == expect_rem);
    // B's own has_remaining_mut: method syntax on `b: &mut B` resolves to `impl BufMut for &mut B`, which does not forward
    // has_remaining_mut and answers with the default `remaining_mut() > 0` (s65: an override on Limit went unseen)
    assert!(B::has_remaining_mut(&*b) == (expect_rem > 0));
    assert!(b.has_remaining_mut() == (expect_rem > 0));
    let cl = b.chunk_mut().len();
    assert!(cl <= expect_rem);
    assert!((cl == 0) == (expect_rem == 0));
}

/// source bytes: symbolic content, symbolic length 0..=3
fn any_src() -> ([u8; 3], usize) {
    (kani::any(), any_len(3))
}

macro_rules! bulk_fixed {
    ($name:ident, |$mem:ident, $lo:ident, $cap:ident| $mk:expr, $extra:expr) => {
        #[kani::proof]
        #[kani::unwind(6)]
        #[kani::stub(core::slice::index::slice_index_fail, stub_slice_index_fail)]
        pub fn $name() {
            let mut $mem = [G; N];
            let $lo = 1usize;
            let $cap = any_len(5);
            let (src, sl) = any_src();
            let val: u8 = kani::any();
            let cnt = any_len(3);
            let op: u8 = kani::any();
            kani::assume(op < 3);
            let wrote;
            {
                let mut w = $mk;
                check_mut_state(&mut w, $cap);
                match op {
                    0 => {
                        kani::assume(sl <= $cap);
                        w.put_slice(&src[..sl]);
                        wrote = sl;
                    }
                    1 => {
                        kani::assume(cnt <= $cap);
                        w.put_bytes(val, cnt);
                        wrote = cnt;
                    }
                    _ => {
                        // put(Buf) from a lawful buffer with symbolic chunking: source chunks and destination chunks
                        // are cut independently
                        kani::assume(sl <= $cap);
                        let sb = SymBuf::<3> { data: src, len: sl, pos: 0, cuts: kani::any(), advances: 0 };
                        w.put(sb);
                        wrote = sl;
                    }
                }
                check_mut_state(&mut w, $cap - wrote);
                // a following byte lands right behind (call order)
                if $cap - wrote > 0 {
                    w.put_u8(0x5A);
                }
                ($extra)(&w, $cap, wrote);
            }
            if wrote > 0 {
                let i = any_below(wrote);
                let exp = if op == 1 { val } else { src[i] };
                assert!($mem[$lo + i] == exp);
            }
            let end = if $cap - wrote > 0 {
                assert!($mem[$lo + wrote] == 0x5A);
                wrote + 1
            } else {
                wrote
            };
            let g = any_below(N);
            if g < $lo || g >= $lo + end {
                assert!($mem[g] == G);
            }
            kani::cover!(op == 2 && wrote == 3, "put(Buf) of three bytes");
            kani::cover!(op == 0 && wrote == $cap && wrote > 0, "put_slice filling the target exactly");
            end_reached!();
        }
    };
}

fn no_extra<T>(_w: &T, _cap: usize, _wrote: usize) {}

// @h props=C11 tier=quick group=bulk note=&mut[u8]_put_slice/put_bytes/put(Buf)
bulk_fixed!(c11x_bulk_slice, |mem, lo, cap| { let w: &mut [u8] = &mut mem[lo..lo + cap]; w }, no_extra);

// @h props=C11 tier=quick group=bulk note=&mut[MaybeUninit<u8>]_bulk
bulk_fixed!(c11x_bulk_uninit, |mem, lo, cap| {
    let mu: &mut [core::mem::MaybeUninit<u8>; N] = unsafe { &mut *(&mut mem as *mut [u8; N] as *mut [core::mem::MaybeUninit<u8>; N]) };
    let w: &mut [core::mem::MaybeUninit<u8>] = &mut mu[lo..lo + cap];
    w
}, no_extra);

// @h props=C11,C12,C02 tier=quick group=bulk note=Chain<&mut[u8],&mut[u8]>_bulk_symbolic_split_non-adjacent_halves
#[kani::proof]
#[kani::unwind(6)]
#[kani::stub(core::slice::index::slice_index_fail, stub_slice_index_fail)]
pub fn c11x_bulk_chain() {
    // the two halves are windows of SEPARATE guard arrays: a bulk write that runs over the end of the first half's chunk (e.g. a
    // fill of the whole remaining count at the first chunk) hits a guard byte instead of landing in the second half
    let mut ma = [G; N];
    let mut mb = [G; N];
    let lo = 1usize;
    let cap = any_len(5);
    let split = any_len(5);
    kani::assume(split <= cap);
    let (src, sl) = any_src();
    let val: u8 = kani::any();
    let cnt = any_len(3);
    let op: u8 = kani::any();
    kani::assume(op < 4);
    let wrote;
    let tail;
    {
        let a: &mut [u8] = &mut ma[lo..lo + split];
        let b: &mut [u8] = &mut mb[lo..lo + (cap - split)];
        let mut w = a.chain_mut(b);
        check_mut_state(&mut w, cap);
        match op {
            3 => {
                // advance_mut by itself, by any amount up to remaining_mut() (the memory is initialised): an amount that crosses
                // the a/b boundary takes all of a and the rest - not the whole amount - out of b
                let k = any_len(5);
                kani::assume(k <= cap);
                unsafe { w.advance_mut(k) };
                let in_a = if k < split { k } else { split };
                assert!(w.first_ref().len() == split - in_a);
                assert!(w.last_ref().len() == (cap - split) - (k - in_a));
                assert!(w.remaining_mut() == cap - k);
                kani::cover!(split > 0 && k > split, "advance_mut across the boundary");
                return;
            }
            0 => {
                kani::assume(sl <= cap);
                w.put_slice(&src[..sl]);
                wrote = sl;
            }
            1 => {
                kani::assume(cnt <= cap);
                w.put_bytes(val, cnt);
                wrote = cnt;
            }
            _ => {
                kani::assume(sl <= cap);
                let sb = SymBuf::<3> { data: src, len: sl, pos: 0, cuts: kani::any(), advances: 0 };
                w.put(sb);
                wrote = sl;
            }
        }
        check_mut_state(&mut w, cap - wrote);
        tail = cap - wrote > 0;
        if tail {
            w.put_u8(0x5A);
        }
        // C12: conservation across the two halves; a is filled before b
        let total = wrote + if tail { 1 } else { 0 };
        assert!(w.first_ref().len() + w.last_ref().len() + total == cap);
        let in_a = if total < split { total } else { split };
        assert!(w.first_ref().len() == split - in_a);
        assert!(w.last_ref().len() == (cap - split) - (total - in_a));
    }
    let total = wrote + if tail { 1 } else { 0 };
    let in_a = if total < split { total } else { split };
    let in_b = total - in_a;
    if total > 0 {
        let i = any_below(total);
        let got = if i < in_a { ma[lo + i] } else { mb[lo + i - in_a] };
        let exp = if i == wrote { 0x5A } else if op == 1 { val } else { src[i] };
        assert!(got == exp);
    }
    let g = any_below(N);
    if g < lo || g >= lo + in_a {
        assert!(ma[g] == G);
    }
    if g < lo || g >= lo + in_b {
        assert!(mb[g] == G);
    }
    kani::cover!(op == 2 && wrote == 3, "put(Buf) of three bytes");
    kani::cover!(op == 1 && split > 0 && split < cnt, "put_bytes straddling the two halves");
    kani::cover!(op == 0 && wrote == cap && wrote > 0, "put_slice filling the target exactly");
    end_reached!();
}

// @h props=C11,C12 tier=quick group=bulk note=Limit<&mut[u8]>_bulk_symbolic_limit
#[kani::proof]
#[kani::unwind(6)]
#[kani::stub(core::slice::index::slice_index_fail, stub_slice_index_fail)]
pub fn c11x_bulk_limit() {
    let mut mem = [G; N];
    let lo = 1usize;
    let inner_cap = any_len(5);
    let lim: usize = kani::any();
    let cap = if lim < inner_cap { lim } else { inner_cap };
    let (src, sl) = any_src();
    kani::assume(sl <= cap);
    {
        let inner: &mut [u8] = &mut mem[lo..lo + inner_cap];
        let mut w = inner.limit(lim);
        check_mut_state(&mut w, cap);
        let sb = SymBuf::<3> { data: src, len: sl, pos: 0, cuts: kani::any(), advances: 0 };
        w.put(sb);
        check_mut_state(&mut w, cap - sl);
        assert!(bytes::buf::Limit::limit(&w) == lim - sl);
        assert!(w.get_ref().len() == inner_cap - sl);
        let inner2 = w.into_inner();
        assert!(inner2.len() == inner_cap - sl);
    }
    if sl > 0 {
        let i = any_below(sl);
        assert!(mem[lo + i] == src[i]);
    }
    let g = any_below(N);
    if g < lo || g >= lo + sl {
        assert!(mem[g] == G);
    }
    kani::cover!(lim < inner_cap && sl == lim && lim > 0, "limit is the binding bound");
    kani::cover!(lim == usize::MAX, "limit usize::MAX");
    end_reached!();
}

// @h props=C11,C12 tier=quick group=bulk allow=observed.panic_advance must_fail=observed.panic_advance note=Limit_rejects_a_write_beyond_the_limit
#[kani::proof]
#[kani::unwind(6)]
#[kani::stub(core::slice::index::slice_index_fail, stub_slice_index_fail)]
#[kani::stub(bytes::panic_advance, observing_panic_advance)]
pub fn c11x_limit_nofit() {
    let mut mem = [G; N];
    let lo = 1usize;
    unsafe { observe_guards(mem.as_ptr(), N, 0, 0) };
    let lim = any_len(2);
    let (src, sl) = any_src();
    kani::assume(sl > lim);
    let inner: &mut [u8] = &mut mem[lo..lo + 5];
    let mut w = inner.limit(lim);
    end_reached!();
    w.put_slice(&src[..sl]);
    assert!(false, "RETURNED: limit(n) accepted more than n bytes");
}

// ------------------------------------------------------------------------------------------ SymBufMut (default bulk bodies, symbolic dst chunking)
// @h props=C11 tier=quick group=bulk note=SymBufMut_default_put(Buf)/put_slice/put_bytes_symbolic_chunking_on_both_sides
#[kani::proof]
#[kani::unwind(6)]
#[kani::stub(core::slice::index::slice_index_fail, stub_slice_index_fail)]
pub fn c11x_bulk_symbufmut() {
    let lo = 1usize;
    let cap = any_len(5);
    let mut w = SymBufMut::<N> { mem: [G; N], lo, cap, written: 0, cuts: kani::any() };
    let (src, sl) = any_src();
    let val: u8 = kani::any();
    let op: u8 = kani::any();
    kani::assume(op < 3 && sl <= cap);
    check_mut_state(&mut w, cap);
    match op {
        0 => w.put_slice(&src[..sl]),
        1 => w.put_bytes(val, sl),
        _ => {
            let sb = SymBuf::<3> { data: src, len: sl, pos: 0, cuts: kani::any(), advances: 0 };
            w.put(sb);
        }
    }
    assert!(w.written == sl);
    check_mut_state(&mut w, cap - sl);
    if sl > 0 {
        let i = any_below(sl);
        assert!(w.mem[lo + i] == if op == 1 { val } else { src[i] });
    }
    let g = any_below(N);
    if g < lo || g >= lo + sl {
        assert!(w.mem[g] == G);
    }
    kani::cover!(op == 2 && sl == 3, "put(Buf) of three bytes");
    end_reached!();
}

// @h props=C11 tier=quick group=bulk note=&mut_SymBufMut_and_Box_forwarding_of_bulk_writes
#[kani::proof]
#[kani::unwind(6)]
#[kani::stub(core::slice::index::slice_index_fail, stub_slice_index_fail)]
pub fn c11x_bulk_forwarding() {
    let lo = 1usize;
    let cap = any_len(5);
    let mut inner = SymBufMut::<N> { mem: [G; N], lo, cap, written: 0, cuts: [1u8; N] };
    let (src, sl) = any_src();
    kani::assume(sl <= cap);
    let boxed: bool = kani::any();
    // generic helper: forces the `impl BufMut for &mut T` / `for Box<T>` forwarding impls (plain method syntax on
    // `&mut inner` would auto-deref to the inner type's own impl)
    fn put_via<B: BufMut, S: Buf>(mut b: B, s: S, also: &[u8]) {
        b.put(s);
        b.put_slice(also);
    }
    let extra: [u8; 1] = [0x5A];
    let more = cap - sl > 0;
    if boxed {
        let mut b: Box<&mut SymBufMut<N>> = Box::new(&mut inner);
        check_mut_state(&mut b, cap);
        let sb = StepBuf::<3, 2> { data: src, len: sl, pos: 0 };
        put_via(b, sb, if more { &extra[..] } else { &extra[..0] });
    } else {
        let mut r = &mut inner;
        check_mut_state(&mut r, cap);
        let sb = StepBuf::<3, 2> { data: src, len: sl, pos: 0 };
        put_via(r, sb, if more { &extra[..] } else { &extra[..0] });
    }
    let sl_total = sl + if more { 1 } else { 0 };
    if more {
        assert!(inner.mem[lo + sl] == 0x5A);
    }
    assert!(inner.written == sl_total);
    if sl > 0 {
        let i = any_below(sl);
        assert!(inner.mem[lo + i] == src[i]);
    }
    let g = any_below(N);
    if g < lo || g >= lo + sl_total {
        assert!(inner.mem[g] == G);
    }
    end_reached!();
}

// @h props=C11,C02 tier=quick group=bulk timeout=900 note=default_put_bytes/put_slice_through_&mut_Vec_and_Box<Vec>_with_less_spare_capacity_than_the_write
#[kani::proof]
#[kani::unwind(6)]
#[kani::stub(core::slice::index::slice_index_fail, stub_slice_index_fail)]
pub fn c11x_bulk_forwarding_growable() {
    // `&mut B` / `Box<B>` forward chunk_mut / advance_mut / put_slice but NOT put_bytes: the provided loop runs over the Vec's
    // chunks.  Spare capacity (2) is smaller than the fill (3): the first chunk must receive exactly two bytes.
    fn fill_via<B: BufMut>(mut b: B, val: u8, n: usize, also: &[u8]) {
        b.put_bytes(val, n);
        b.put_slice(also);
    }
    let mut v: Vec<u8> = Vec::with_capacity(4);
    v.push(G);
    v.push(G);
    let val: u8 = kani::any();
    let also: [u8; 1] = [0x5A];
    if kani::any() {
        fill_via(&mut v, val, 3, &also);
    } else {
        let b: Box<&mut Vec<u8>> = Box::new(&mut v);
        fill_via(b, val, 3, &also);
    }
    assert!(v.len() == 6);
    assert!(v[0] == G && v[1] == G && v[5] == 0x5A);
    assert!(v[2 + any_below(3)] == val);
    end_reached!();
}

// ------------------------------------------------------------------------------------------ growable targets
macro_rules! bulk_vec {
    ($name:ident, $cap:expr, $sl:expr) => {
        #[kani::proof]
        #[kani::unwind(6)]
        #[kani::stub(core::slice::index::slice_index_fail, stub_slice_index_fail)]
        pub fn $name() {
            // lengths are allocation sizes here and therefore concrete; contents and operation are symbolic
            let mut w: Vec<u8> = Vec::with_capacity($cap);
            w.push(G);
            let src: [u8; 3] = kani::any();
            let val: u8 = kani::any();
            let op: u8 = kani::any();
            kani::assume(op < 3);
            assert!(w.remaining_mut() == isize::MAX as usize - 1);
            match op {
                0 => w.put_slice(&src[..$sl]),
                1 => w.put_bytes(val, $sl),
                _ => {
                    let sb = SymBuf::<3> { data: src, len: $sl, pos: 0, cuts: kani::any(), advances: 0 };
                    w.put(sb);
                }
            }
            assert!(w.len() == 1 + $sl && w[0] == G);
            if $sl > 0 {
                let i = any_below($sl);
                assert!(w[1 + i] == if op == 1 { val } else { src[i] });
            }
            let cl = w.chunk_mut().len();
            assert!(cl > 0 && cl <= w.remaining_mut());
            end_reached!();
        }
    };
}
// @h props=C11 tier=quick group=bulk note=Vec<u8>_bulk_growth_triggered
bulk_vec!(c11x_bulk_vec_grow, 1, 3);
// @h props=C11 tier=quick group=bulk note=Vec<u8>_bulk_no_growth
bulk_vec!(c11x_bulk_vec_room, 8, 2);
// @h props=C11 tier=thorough group=bulk note=Vec<u8>_bulk_empty_write
bulk_vec!(c11x_bulk_vec_empty, 1, 0);

macro_rules! bulk_bm {
    ($name:ident, $rep:expr, $sl:expr) => {
        #[kani::proof]
        #[kani::unwind(6)]
        #[kani::stub(core::slice::index::slice_index_fail, stub_slice_index_fail)]
        pub fn $name() {
            let pre: [u8; 1] = [G];
            let mut w: BytesMut = mk_bm($rep, &pre);
            let src: [u8; 3] = kani::any();
            let val: u8 = kani::any();
            let op: u8 = kani::any();
            kani::assume(op < 3);
            match op {
                0 => w.put_slice(&src[..$sl]),
                1 => w.put_bytes(val, $sl),
                _ => {
                    // concrete source chunking: every chunk length becomes a reserve() argument
                    let sb = StepBuf::<3, 2> { data: src, len: $sl, pos: 0 };
                    w.put(sb);
                }
            }
            assert!(w.len() == 1 + $sl && w[0] == G);
            if $sl > 0 {
                let i = any_below($sl);
                assert!(w[1 + i] == if op == 1 { val } else { src[i] });
            }
            end_reached!();
        }
    };
}
// @h props=C11 tier=quick group=bulk note=BytesMut_vec_form_bulk_within_capacity
bulk_bm!(c11x_bulk_bm_vec_room, MRep::Vec, 2);
// @h props=C11 tier=quick group=bulk note=BytesMut_vec_form_with_offset_bulk_growth
bulk_bm!(c11x_bulk_bm_vecoff_grow, MRep::VecOff, 3);
// @h props=C11 tier=thorough group=bulk timeout=1800 note=BytesMut_shared_form_bulk_growth
bulk_bm!(c11x_bulk_bm_arc_grow, MRep::ArcUnique, 3);

// ------------------------------------------------------------------------------------------ does-not-fit for bulk writes
// @h props=C11,C13 tier=quick group=bulk allow=observed.panic_advance must_fail=observed.panic_advance note=bulk_write_that_does_not_fit_panics_before_touching_memory
#[kani::proof]
#[kani::unwind(6)]
#[kani::stub(core::slice::index::slice_index_fail, stub_slice_index_fail)]
#[kani::stub(bytes::panic_advance, observing_panic_advance)]
pub fn c11x_bulk_nofit() {
    let lo = 1usize;
    let cap = any_len(2);
    let mut w = SymBufMut::<N> { mem: [G; N], lo, cap, written: 0, cuts: kani::any() };
    unsafe { observe_guards(w.mem.as_ptr(), N, 0, 0) };
    let (src, sl) = any_src();
    kani::assume(sl > cap);
    let op: u8 = kani::any();
    kani::assume(op < 3);
    end_reached!();
    match op {
        0 => w.put_slice(&src[..sl]),
        1 => w.put_bytes(7, sl),
        _ => w.put(&src[..sl]),
    }
    assert!(false, "RETURNED: a bulk write that does not fit must panic");
}

// @h props=C11,C13,C02 tier=quick group=bulk allow=observed.panic_advance must_fail=observed.panic_advance note=bulk_write_that_does_not_fit_into_&mut[u8]/&mut[MaybeUninit<u8>]_(specialised_bodies)_panics_before_touching_memory
#[kani::proof]
#[kani::unwind(6)]
#[kani::stub(core::slice::index::slice_index_fail, stub_slice_index_fail)]
#[kani::stub(bytes::panic_advance, observing_panic_advance)]
pub fn c11x_bulk_nofit_slices() {
    // the slice targets carry their own put_slice / put_bytes bodies (raw copies guarded by a length check): the check must come
    // BEFORE the copy - at the moment the panic is raised every byte outside the window still holds the guard value
    let mut mem = [G; N];
    let lo = 1usize;
    let cap = any_len(2);
    unsafe { observe_guards(mem.as_ptr(), N, 0, 0) };
    let (src, sl) = any_src();
    kani::assume(sl > cap);
    let op: u8 = kani::any();
    kani::assume(op < 3);
    let uninit: bool = kani::any();
    end_reached!();
    if uninit {
        let mu: &mut [core::mem::MaybeUninit<u8>; N] = unsafe { &mut *(&mut mem as *mut [u8; N] as *mut [core::mem::MaybeUninit<u8>; N]) };
        let mut w: &mut [core::mem::MaybeUninit<u8>] = &mut mu[lo..lo + cap];
        match op {
            0 => w.put_slice(&src[..sl]),
            1 => w.put_bytes(7, sl),
            _ => w.put(&src[..sl]),
        }
    } else {
        let mut w: &mut [u8] = &mut mem[lo..lo + cap];
        match op {
            0 => w.put_slice(&src[..sl]),
            1 => w.put_bytes(7, sl),
            _ => w.put(&src[..sl]),
        }
    }
    assert!(false, "RETURNED: a bulk write that does not fit must panic");
}

// ------------------------------------------------------------------------------------------ Writer / Reader (C12)
// @h props=C12 tier=quick group=io note=Writer::write_transfers_min(remaining_mut,len)_and_never_fails
#[cfg(feature = "std")]
#[kani::proof]
#[kani::unwind(6)]
#[kani::stub(core::slice::index::slice_index_fail, stub_slice_index_fail)]
pub fn c12_writer() {
    use std::io::Write;
    let lo = 1usize;
    let cap = any_len(4);
    let inner = SymBufMut::<N> { mem: [G; N], lo, cap, written: 0, cuts: kani::any() };
    let mut wr = inner.writer();
    let (src, sl) = any_src();
    let r = wr.write(&src[..sl]);
    let exp = if sl < cap { sl } else { cap };
    match r {
        Ok(n) => assert!(n == exp),
        Err(_) => assert!(false, "Writer::write failed"),
    }
    assert!(wr.flush().is_ok());
    assert!(wr.get_ref().written == exp);
    let inner = wr.into_inner();
    if exp > 0 {
        let i = any_below(exp);
        assert!(inner.mem[lo + i] == src[i]);
    }
    let g = any_below(N);
    if g < lo || g >= lo + exp {
        assert!(inner.mem[g] == G);
    }
    kani::cover!(sl > cap, "source longer than the space left");
    kani::cover!(sl < cap, "source shorter than the space left");
    end_reached!();
}

// @h props=C12 tier=quick group=io note=Reader::read/fill_buf/consume
#[cfg(feature = "std")]
#[kani::proof]
#[kani::unwind(6)]
#[kani::stub(core::slice::index::slice_index_fail, stub_slice_index_fail)]
pub fn c12_reader() {
    use std::io::{BufRead, Read};
    let inner = SymBuf::<4>::any();
    let data = inner.data;
    let len = inner.len;
    let mut rd = inner.reader();
    // fill_buf is chunk()
    {
        let fb = rd.fill_buf();
        match fb {
            Ok(c) => {
                assert!((c.len() == 0) == (len == 0));
                assert!(c.len() <= len);
                if c.len() > 0 {
                    let i = any_below(c.len());
                    assert!(c[i] == data[i]);
                }
            }
            Err(_) => assert!(false, "fill_buf failed"),
        }
    }
    let amt = any_len(4);
    kani::assume(amt <= len);
    rd.consume(amt);
    assert!(rd.get_ref().pos == amt);
    let mut dst = [G; 3];
    let dl = any_len(3);
    let r = rd.read(&mut dst[..dl]);
    let avail = len - amt;
    let exp = if avail < dl { avail } else { dl };
    match r {
        Ok(n) => assert!(n == exp),
        Err(_) => assert!(false, "Reader::read failed"),
    }
    if exp > 0 {
        let i = any_below(exp);
        assert!(dst[i] == data[amt + i]);
    }
    let j = any_below(3);
    if j >= exp {
        assert!(dst[j] == G);
    }
    assert!(rd.get_ref().pos == amt + exp);
    let inner = rd.into_inner();
    assert!(inner.pos == amt + exp);
    kani::cover!(avail < dl, "fewer bytes available than requested");
    kani::cover!(avail > dl && dl > 0, "more bytes available than requested");
    end_reached!();
}

// @h props=C11,C12 tier=quick flags=witness group=bulk
#[kani::proof]
#[kani::unwind(6)]
pub fn c11x_witness() {
    let lo = 1usize;
    let mut w = SymBufMut::<N> { mem: [G; N], lo, cap: 4, written: 0, cuts: kani::any() };
    let src: [u8; 3] = kani::any();
    w.put(&src[..]);
    assert!(w.mem[lo] == src[0]);
    assert!(false, "VACUITY_WITNESS");
}

// ------------------------------------------------------------------------------------------ UninitSlice and spare_capacity_mut (C02, C11)
// @h props=C11,C02 tier=quick group=bulk note=UninitSlice:new/uninit/from_raw_parts_mut/len/write_byte/copy_from_slice/index_ranges/as_mut_ptr/as_uninit_slice_mut_stay_inside_the_window
#[kani::proof]
#[kani::unwind(8)]
#[kani::stub(core::slice::index::slice_index_fail, stub_slice_index_fail)]
pub fn c11x_uninit_slice_api() {
    let mut mem = [G; N];
    let lo = any_len(N);
    let cap = any_len(N - lo);
    let base = mem.as_mut_ptr();
    let how: u8 = kani::any();
    let s: &mut UninitSlice = match how % 3 {
        0 => UninitSlice::new(&mut mem[lo..lo + cap]),
        1 => {
            let mu: &mut [core::mem::MaybeUninit<u8>; N] = unsafe { &mut *(&mut mem as *mut [u8; N] as *mut [core::mem::MaybeUninit<u8>; N]) };
            UninitSlice::uninit(&mut mu[lo..lo + cap])
        }
        _ => unsafe { UninitSlice::from_raw_parts_mut(base.add(lo), cap) },
    };
    assert!(s.len() == cap);
    assert!(s.as_mut_ptr() == unsafe { base.add(lo) });
    assert!(unsafe { s.as_uninit_slice_mut() }.len() == cap);
    let op: u8 = kani::any();
    let v: u8 = kani::any();
    let (mut wlo, mut whi) = (0usize, 0usize); // written range relative to the window
    match op % 3 {
        0 => {
            kani::assume(cap > 0);
            let i = any_below(cap);
            s.write_byte(i, v);
            wlo = i;
            whi = i + 1;
        }
        1 => {
            // sub-range by index, then fill it
            let a = any_len(N);
            let b = any_len(N);
            kani::assume(a <= b && b <= cap);
            let sub = &mut s[a..b];
            assert!(sub.len() == b - a);
            let src = [v; N];
            sub.copy_from_slice(&src[..b - a]);
            wlo = a;
            whi = b;
        }
        _ => {
            let src = [v; N];
            s.copy_from_slice(&src[..cap]);
            whi = cap;
        }
    }
    let g = any_below(N);
    if g >= lo + wlo && g < lo + whi {
        assert!(mem[g] == v);
    } else {
        assert!(mem[g] == G);
    }
    end_reached!();
}

// @h props=C11,C13,C02 tier=quick group=bulk allow=@PANIC@ must_fail=@PANIC@ note=UninitSlice:write_byte_out_of_range_and_copy_from_slice_length_mismatch_must_panic
#[kani::proof]
#[kani::unwind(8)]
#[kani::stub(core::slice::index::slice_index_fail, stub_slice_index_fail)]
pub fn c11x_uninit_slice_ooc() {
    let mut mem = [G; N];
    let cap = any_len(N - 1);
    unsafe { observe_guards(mem.as_ptr(), N, 0, 0) };
    let s = UninitSlice::new(&mut mem[1..1 + cap]);
    let which: bool = kani::any();
    end_reached!();
    if which {
        let i: usize = kani::any();
        kani::assume(i >= cap);
        s.write_byte(i, 7);
    } else {
        let src = [7u8; N];
        let l = any_len(N);
        kani::assume(l != cap);
        s.copy_from_slice(&src[..l]);
    }
    assert!(false, "RETURNED: out-of-range UninitSlice access returned");
}

// @h props=C11,C02,C04 tier=quick group=bulk note=BytesMut::spare_capacity_mut_is_exactly_the_bytes_between_len_and_capacity;is_empty
#[kani::proof]
#[kani::unwind(8)]
#[kani::stub(core::slice::index::slice_index_fail, stub_slice_index_fail)]
pub fn c11x_spare_capacity_mut() {
    let a: [u8; 3] = kani::any();
    let arc: bool = kani::any();
    let mut m = if arc { mk_bm(MRep::ArcUnique, &a) } else { mk_bm(MRep::VecOff, &a) };
    let k = any_len(3);
    m.truncate(k);
    assert!(m.is_empty() == (k == 0));
    let cap = m.capacity();
    let base = m.as_ptr();
    let sp = m.spare_capacity_mut();
    assert!(sp.len() == cap - k);
    assert!(sp.as_ptr() as *const u8 == unsafe { base.add(k) });
    let v: u8 = kani::any();
    if sp.len() > 0 {
        sp[0].write(v);
        unsafe { m.set_len(k + 1) };
        assert!(m[k] == v);
        if k > 0 {
            let i = any_below(k);
            assert!(m[i] == a[i]);
        }
    }
    core::mem::forget(m);
    end_reached!();
}
