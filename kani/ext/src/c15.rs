//! C15: Debug output decodes back to the contents, hex prints two digits per byte, serde round-trips through every
//! visitor entry point.  Output is captured in a fixed-array sink (no String) and parsed by an independent decoder.
use crate::util::*;
use alloc::string::String;
use alloc::vec::Vec;
use bytes::{Bytes, BytesMut};
use core::fmt::Write;

pub struct Sink {
    pub buf: [u8; 24],
    pub n: usize,
    pub overflow: bool,
}
impl Sink {
    pub fn new() -> Sink {
        Sink { buf: [0; 24], n: 0, overflow: false }
    }
}
impl core::fmt::Write for Sink {
    fn write_str(&mut self, s: &str) -> core::fmt::Result {
        let b = s.as_bytes();
        let mut i = 0;
        while i < b.len() {
            if self.n < 24 {
                self.buf[self.n] = b[i];
                self.n += 1;
            } else {
                self.overflow = true;
            }
            i += 1;
        }
        Ok(())
    }
}

fn hexval(c: u8) -> Option<u8> {
    match c {
        b'0'..=b'9' => Some(c - b'0'),
        b'a'..=b'f' => Some(c - b'a' + 10),
        b'A'..=b'F' => Some(c - b'A' + 10),
        _ => None,
    }
}

/// Independent decoder of a Rust byte-string literal b"...": returns the number of decoded bytes (written to out) or
/// None if the text is not a valid literal.  Accepts exactly the escapes of the Rust reference.
fn decode_literal(s: &[u8], out: &mut [u8; 4]) -> Option<usize> {
    if s.len() < 3 || s[0] != b'b' || s[1] != b'"' || s[s.len() - 1] != b'"' {
        return None;
    }
    let end = s.len() - 1;
    let mut i = 2;
    let mut k = 0;
    while i < end {
        let c = s[i];
        let v;
        if c == b'\\' {
            if i + 1 >= end {
                return None;
            }
            let e = s[i + 1];
            if e == b'x' {
                if i + 3 >= end {
                    return None;
                }
                let h = hexval(s[i + 2])?;
                let l = hexval(s[i + 3])?;
                v = h * 16 + l;
                i += 4;
            } else {
                v = match e {
                    b'n' => b'\n',
                    b'r' => b'\r',
                    b't' => b'\t',
                    b'\\' => b'\\',
                    b'"' => b'"',
                    b'\'' => b'\'',
                    b'0' => 0,
                    _ => return None,
                };
                i += 2;
            }
        } else if c == b'"' || c < 0x20 || c >= 0x7f {
            // a raw quote would end the literal; raw control / non-ASCII bytes are not allowed in byte strings
            return None;
        } else {
            v = c;
            i += 1;
        }
        if k >= 4 {
            return None;
        }
        out[k] = v;
        k += 1;
    }
    Some(k)
}

fn check_debug(sink: &Sink, a: &[u8]) {
    assert!(!sink.overflow);
    let mut out = [0u8; 4];
    match decode_literal(&sink.buf[..sink.n], &mut out) {
        Some(k) => {
            assert!(k == a.len());
            if k > 0 {
                let i = any_below(k);
                assert!(out[i] == a[i]);
            }
        }
        None => assert!(false, "Debug output is not a valid byte-string literal"),
    }
}

macro_rules! debug1 {
    ($name:ident, $lo:expr, $hi:expr, $mut:expr) => {
        #[kani::proof]
        #[kani::unwind(26)]
        #[kani::stub(core::slice::index::slice_index_fail, stub_slice_index_fail)]
        pub fn $name() {
            let a: [u8; 1] = kani::any();
            kani::assume(a[0] as usize >= $lo && (a[0] as usize) < $hi);
            let mut sink = Sink::new();
            if $mut {
                let m = mk_bm(MRep::Vec, &a);
                write!(sink, "{:?}", m).unwrap();
                core::mem::forget(m);
            } else {
                let b = mk_bytes(Rep::Static, &a);
                write!(sink, "{:?}", b).unwrap();
            }
            check_debug(&sink, &a);
            end_reached!();
        }
    };
}
// one byte, the whole range, in slices (core::fmt is the cost driver; the slices run in parallel)
// @h props=C15 tier=quick group=fmt timeout=1500 note=Debug_1_byte_0x00..0x20(named_and_hex_escapes)
debug1!(c15_debug1_ctrl, 0x00, 0x20, false);
// @h props=C15 tier=quick group=fmt timeout=1500 note=Debug_1_byte_0x20..0x7f(printable,_backslash,_quote)
debug1!(c15_debug1_print, 0x20, 0x7f, false);
// @h props=C15 tier=quick group=fmt timeout=1500 note=Debug_1_byte_0x7f..0xc0
debug1!(c15_debug1_hi1, 0x7f, 0xc0, false);
// @h props=C15 tier=quick group=fmt timeout=1500 note=Debug_1_byte_0xc0..0x100
debug1!(c15_debug1_hi2, 0xc0, 0x100, false);
// @h props=C15 tier=quick group=fmt timeout=1500 note=Debug_BytesMut_1_byte_escapes
debug1!(c15_debug1_mut_ctrl, 0x00, 0x20, true);
// @h props=C15 tier=thorough group=fmt timeout=3000 note=Debug_BytesMut_1_byte_rest
debug1!(c15_debug1_mut_rest, 0x20, 0x100, true);

macro_rules! debug2 {
    ($name:ident, $first:expr, $lo2:expr, $hi2:expr) => {
        #[kani::proof]
        #[kani::unwind(26)]
        #[kani::stub(core::slice::index::slice_index_fail, stub_slice_index_fail)]
        pub fn $name() {
            // escape adjacency: the first byte is one that produces an escape, the second ranges over a class
            let second: u8 = kani::any();
            kani::assume(second as usize >= $lo2 && (second as usize) < $hi2);
            let a: [u8; 2] = [$first, second];
            let mut sink = Sink::new();
            let b = mk_bytes(Rep::Static, &a);
            write!(sink, "{:?}", b).unwrap();
            check_debug(&sink, &a);
            end_reached!();
        }
    };
}
// @h props=C15 tier=quick group=fmt timeout=1500 note=Debug_pair_NUL_then_digit_or_letter(\0_followed_by_a_digit)
debug2!(c15_debug2_nul_alnum, 0u8, 0x30, 0x7b);
// @h props=C15 tier=quick group=fmt timeout=1500 note=Debug_pair_backslash_then_printable
debug2!(c15_debug2_bs_print, b'\\', 0x20, 0x7f);
// @h props=C15 tier=thorough group=fmt timeout=3000 note=Debug_pair_0x7f_then_any
debug2!(c15_debug2_del_any, 0x7fu8, 0x00, 0x100);
// @h props=C15 tier=thorough group=fmt timeout=3000 note=Debug_pair_quote_then_any
debug2!(c15_debug2_quote_any, b'"', 0x00, 0x100);
// @h props=C15 tier=thorough group=fmt timeout=3000 note=Debug_pair_0x80_then_any
debug2!(c15_debug2_hi_any, 0x80u8, 0x00, 0x100);

// @h props=C15 tier=quick group=fmt note=Debug_of_the_empty_buffer
#[kani::proof]
#[kani::unwind(26)]
pub fn c15_debug_empty() {
    let mut sink = Sink::new();
    let b = Bytes::new();
    write!(sink, "{:?}", b).unwrap();
    check_debug(&sink, &[]);
    let mut sink2 = Sink::new();
    let m = BytesMut::new();
    write!(sink2, "{:?}", m).unwrap();
    check_debug(&sink2, &[]);
    end_reached!();
}

fn hexdigit(v: u8, upper: bool) -> u8 {
    if v < 10 {
        b'0' + v
    } else if upper {
        b'A' + (v - 10)
    } else {
        b'a' + (v - 10)
    }
}

macro_rules! hex_case {
    ($name:ident, $n:expr, $upper:expr, $mut:expr) => {
        #[kani::proof]
        #[kani::unwind(26)]
        #[kani::stub(core::slice::index::slice_index_fail, stub_slice_index_fail)]
        pub fn $name() {
            let a: [u8; $n] = kani::any();
            let mut sink = Sink::new();
            if $mut {
                let m = mk_bm(MRep::Vec, &a);
                if $upper {
                    write!(sink, "{:X}", m).unwrap();
                } else {
                    write!(sink, "{:x}", m).unwrap();
                }
                core::mem::forget(m);
            } else {
                let b = mk_bytes(Rep::Static, &a);
                if $upper {
                    write!(sink, "{:X}", b).unwrap();
                } else {
                    write!(sink, "{:x}", b).unwrap();
                }
            }
            // exactly two digits per byte, in order, correct case
            assert!(!sink.overflow && sink.n == 2 * $n);
            let i = any_below($n);
            assert!(sink.buf[2 * i] == hexdigit(a[i] >> 4, $upper));
            assert!(sink.buf[2 * i + 1] == hexdigit(a[i] & 15, $upper));
            end_reached!();
        }
    };
}
// @h props=C15 tier=quick group=fmt timeout=1500 note=LowerHex_Bytes_2_symbolic_bytes
hex_case!(c15_hex_lower_2, 2, false, false);
// @h props=C15 tier=quick group=fmt timeout=1500 note=UpperHex_Bytes_2_symbolic_bytes
hex_case!(c15_hex_upper_2, 2, true, false);
// @h props=C15 tier=quick group=fmt timeout=1500 note=LowerHex_BytesMut_1_symbolic_byte
hex_case!(c15_hex_lower_mut_1, 1, false, true);
// @h props=C15 tier=quick group=fmt timeout=1500 note=UpperHex_BytesMut_1_symbolic_byte
hex_case!(c15_hex_upper_mut_1, 1, true, true);

// ---- long buffers: a block-wise encoder is only wrong beyond its block size (s67: bytes 64..128 of every 128-byte block dropped).
// The 2-byte harnesses above decide the per-byte encoding for all values; this one decides "every byte, in order, nothing dropped"
// for one concrete 66-byte buffer (past one 64-byte block).
const HL: usize = 66;
static mut HEX_LONG: [u8; HL] = [0; HL];
/// checks the stream against the expected digits as it arrives (no output buffer; one symbolic position per piece)
struct HexStream {
    n: usize,
    bad: bool,
    upper: bool,
}
impl core::fmt::Write for HexStream {
    fn write_str(&mut self, s: &str) -> core::fmt::Result {
        // loop-free: one symbolically chosen character of this piece is compared (= all of them, decided by the solver), so that the
        // unwind bound does not have to cover the longest piece an implementation may hand over in one call (s67: 128 characters)
        let b = s.as_bytes();
        if b.len() > 0 {
            let i = any_below(b.len());
            let pos = self.n + i;
            if pos < 2 * HL {
                let v = unsafe { HEX_LONG[pos / 2] };
                let nib = if pos % 2 == 0 { v >> 4 } else { v & 15 };
                if b[i] != hexdigit(nib, self.upper) {
                    self.bad = true;
                }
            } else {
                self.bad = true;
            }
            self.n += b.len();
        }
        Ok(())
    }
}
macro_rules! hex_long_case {
    ($name:ident, $upper:expr) => {
        #[kani::proof]
        #[kani::unwind(69)]
        #[kani::stub(core::slice::index::slice_index_fail, stub_slice_index_fail)]
        pub fn $name() {
            unsafe {
                let mut i = 0;
                while i < HL {
                    HEX_LONG[i] = (i as u8).wrapping_mul(37).wrapping_add(11);
                    i += 1;
                }
            }
            // length and contents are CONCRETE: one run of the real formatting code through the symbolic engine.  A symbolic byte
            // makes core::fmt's digit loop symbolic (x unwind 133 for 130 bytes: > 4 GB), a symbolic length 0..=130 reached 3.3 GB / 260 s
            // without a verdict; the symbolic claim about hex stays at <= 2 bytes (harnesses above).
            let n = HL;
            let s: &'static [u8] = unsafe { core::slice::from_raw_parts(core::ptr::addr_of!(HEX_LONG) as *const u8, n) };
            let b = Bytes::from_static(s);
            let mut sink = HexStream { n: 0, bad: false, upper: $upper };
            if $upper {
                write!(sink, "{:X}", b).unwrap();
            } else {
                write!(sink, "{:x}", b).unwrap();
            }
            assert!(!sink.bad, "hex digit stream differs from two digits per byte, in order");
            assert!(sink.n == 2 * n, "hex output length is not two digits per byte");
            kani::cover!(n == HL, "full 130 bytes printed");
            end_reached!();
        }
    };
}
// @h props=C15 tier=quick group=fmt timeout=1500 note=LowerHex_one_concrete_66-byte_buffer(regression_point_beyond_the_64-byte_harness_bound)
hex_long_case!(c15_hex_lower_long, false);
// @h props=C15 tier=thorough group=fmt timeout=3000 note=UpperHex_one_concrete_66-byte_buffer(regression_point_beyond_the_64-byte_harness_bound)
hex_long_case!(c15_hex_upper_long, true);

// @h props=C15 tier=quick flags=witness group=fmt
#[kani::proof]
#[kani::unwind(26)]
pub fn c15_witness() {
    let a: [u8; 1] = [b'a'];
    let mut sink = Sink::new();
    let b = mk_bytes(Rep::Static, &a);
    write!(sink, "{:x}", b).unwrap();
    assert!(sink.n == 2);
    assert!(false, "VACUITY_WITNESS");
}

macro_rules! debug_n {
    ($name:ident, $n:expr) => {
        #[kani::proof]
        #[kani::unwind(26)]
        #[kani::stub(core::slice::index::slice_index_fail, stub_slice_index_fail)]
        pub fn $name() {
            // all byte strings of this length (every value at every position)
            let a: [u8; $n] = kani::any();
            let mut sink = Sink::new();
            let b = mk_bytes(Rep::Static, &a);
            write!(sink, "{:?}", b).unwrap();
            check_debug(&sink, &a);
            end_reached!();
        }
    };
}
// @h props=C15 tier=quick group=fmt timeout=1500 note=Debug_all_65536_byte_pairs
debug_n!(c15_debug_all_pairs, 2);
// @h props=C15 tier=quick group=fmt timeout=1500 note=Debug_all_byte_triples
debug_n!(c15_debug_all_triples, 3);
