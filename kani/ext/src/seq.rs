//! F-SEQ: bounded histories through the PUBLIC API only (no invariant, no private access): the real constructors, then
//! k steps; at every step the target handle is concrete, the operation is a symbolic choice among the operations
//! enabled for the harness, and every argument is symbolic inside the documented contract.  After EVERY step every live
//! handle is compared with an independent value model (each handle = its own byte array), which is exactly "an
//! operation on one handle never changes what any other live handle reads".  At the end the survivors are dropped in a
//! symbolic order under --memory-leak-check.
use crate::util::*;
use alloc::vec::Vec;
use bytes::{Buf, BufMut, Bytes, BytesMut};

pub const MAXL: usize = 10;

/// value model of one handle
#[derive(Clone, Copy)]
pub struct M {
    pub d: [u8; MAXL],
    pub len: usize,
}
impl M {
    pub fn of(a: &[u8], n: usize) -> M {
        let mut d = [0u8; MAXL];
        macro_rules! cp { ($($i:expr),*) => { $( if $i < n { d[$i] = a[$i]; } )* }; }
        cp!(0, 1, 2, 3, 4, 5);
        M { d, len: n }
    }
    /// bytes [lo, hi) of self
    pub fn sub(&self, lo: usize, hi: usize) -> M {
        let mut d = [0u8; MAXL];
        macro_rules! cp { ($($i:expr),*) => { $( if lo + $i < hi { d[$i] = self.d[lo + $i]; } )* }; }
        cp!(0, 1, 2, 3, 4, 5, 6, 7, 8, 9);
        M { d, len: hi - lo }
    }
    pub fn push(&mut self, v: u8) {
        self.d[self.len] = v;
        self.len += 1;
    }
    pub fn append(&mut self, o: &M) {
        macro_rules! cp { ($($i:expr),*) => { $( if $i < o.len { self.d[self.len + $i] = o.d[$i]; } )* }; }
        cp!(0, 1, 2, 3, 4, 5, 6, 7, 8, 9);
        self.len += o.len;
    }
}
pub fn agree(h: &[u8], m: &M) {
    assert!(h.len() == m.len);
    if m.len > 0 {
        let i = any_below(m.len);
        assert!(h[i] == m.d[i]);
    }
}

// ================================================================================== BytesMut world
pub struct WorldM {
    pub m: BytesMut,
    pub mm: M,
    pub t: Option<BytesMut>,
    pub tm: M,
    pub f: Option<Bytes>,
    pub fm: M,
}
impl WorldM {
    pub fn check(&self) {
        agree(&self.m, &self.mm);
        assert!(self.m.len() <= self.m.capacity());
        if let Some(t) = &self.t {
            agree(t, &self.tm);
            // regions of live BytesMut handles are disjoint
            let (a, b) = (self.m.as_ptr() as usize, t.as_ptr() as usize);
            assert!(a + self.m.capacity() <= b || b + t.capacity() <= a || self.m.capacity() == 0 || t.capacity() == 0);
        }
        if let Some(f) = &self.f {
            agree(f, &self.fm);
            let (a, b) = (self.m.as_ptr() as usize, f.as_ptr() as usize);
            assert!(a + self.m.capacity() <= b || b + f.len() <= a || self.m.capacity() == 0 || f.len() == 0);
        }
    }
    /// one step with a CONCRETE operation kind (symbolic op kinds over three steps did not finish: > 10 GB);
    /// the arguments stay symbolic
    pub fn step(&mut self, op: u32) {
        match op {
            0 => {
                // split_off (only when the sibling slot is free)
                kani::assume(self.t.is_none());
                let at = any_len(MAXL);
                kani::assume(at <= self.m.capacity());
                let base = self.m.as_ptr();
                let t = self.m.split_off(at);
                let l = self.mm.len;
                let cut = if at < l { at } else { l };
                self.tm = self.mm.sub(cut, l);
                self.mm = self.mm.sub(0, cut);
                assert!(self.m.as_ptr() == base && t.as_ptr() as usize == base as usize + at);
                self.t = Some(t);
            }
            1 => {
                kani::assume(self.t.is_none());
                let at = any_len(MAXL);
                kani::assume(at <= self.m.len());
                let base = self.m.as_ptr();
                let t = self.m.split_to(at);
                let l = self.mm.len;
                self.tm = self.mm.sub(0, at);
                self.mm = self.mm.sub(at, l);
                assert!(t.as_ptr() == base && self.m.as_ptr() as usize == base as usize + at);
                self.t = Some(t);
            }
            2 => {
                let n: usize = kani::any();
                self.m.truncate(n);
                if n < self.mm.len {
                    self.mm.len = n;
                }
            }
            3 => {
                let n = any_len(MAXL);
                kani::assume(n <= self.m.len());
                self.m.advance(n);
                let l = self.mm.len;
                self.mm = self.mm.sub(n, l);
            }
            4 => {
                // append one symbolic byte (may trigger reserve: reclaim or growth)
                kani::assume(self.mm.len + 1 <= MAXL);
                let v: u8 = kani::any();
                self.m.put_u8(v);
                self.mm.push(v);
            }
            5 => {
                // reserve a concrete amount (allocation size), contents unchanged, promise kept
                let big: bool = kani::any();
                let n = if big { 9 } else { 3 };
                self.m.reserve(n);
                assert!(self.m.capacity() - self.m.len() >= n);
            }
            6 => {
                // unsplit the sibling back
                kani::assume(self.t.is_some() && self.mm.len + self.tm.len <= MAXL);
                let t = self.t.take().unwrap();
                self.m.unsplit(t);
                let tm = self.tm;
                self.mm.append(&tm);
            }
            7 => {
                // freeze the sibling
                kani::assume(self.t.is_some() && self.f.is_none());
                let t = self.t.take().unwrap();
                let p = t.as_ptr();
                let l = t.len();
                let f = t.freeze();
                assert!(l == 0 || f.as_ptr() == p);
                self.fm = self.tm;
                self.f = Some(f);
            }
            8 => {
                // write through the sibling (into its spare capacity): must stay invisible elsewhere
                kani::assume(self.t.is_some() && self.tm.len + 1 <= MAXL);
                let v: u8 = kani::any();
                let t = self.t.as_mut().unwrap();
                kani::assume(t.capacity() > t.len());
                t.put_u8(v);
                self.tm.push(v);
            }
            9 => {
                kani::assume(self.t.is_some());
                self.t = None;
            }
            10 => {
                kani::assume(self.f.is_some());
                self.f = None;
            }
            11 => {
                // the frozen part goes back to BytesMut when unique, else stays
                kani::assume(self.f.is_some() && self.t.is_none());
                let f = self.f.take().unwrap();
                let uniq = f.is_unique();
                let p = f.as_ptr();
                match f.try_into_mut() {
                    Ok(t) => {
                        assert!(uniq);
                        assert!(t.as_ptr() == p || t.len() == 0);
                        self.tm = self.fm;
                        self.t = Some(t);
                    }
                    Err(f) => {
                        assert!(!uniq);
                        self.f = Some(f);
                    }
                }
            }
            12 => {
                // clone of the frozen part, dropped again: ref-count round trip
                kani::assume(self.f.is_some());
                let c = self.f.as_ref().unwrap().clone();
                agree(&c, &self.fm);
                drop(c);
            }
            _ => {
                // resize within a small bound
                let n = any_len(6);
                let v: u8 = kani::any();
                let old = self.mm.len;
                self.m.resize(n, v);
                if n > old {
                    let mut i = old;
                    while i < n {
                        self.mm.d[i] = v;
                        i += 1;
                    }
                }
                self.mm.len = n;
            }
        }
        self.check();
    }
    pub fn finish(self) {
        let order: u8 = kani::any();
        let WorldM { m, t, f, .. } = self;
        match order % 3 {
            0 => {
                drop(m);
                drop(t);
                drop(f);
            }
            1 => {
                drop(f);
                drop(m);
                drop(t);
            }
            _ => {
                drop(t);
                drop(f);
                drop(m);
            }
        }
    }
}

fn world_m(off: bool) -> WorldM {
    let a: [u8; 4] = kani::any();
    let mut m = BytesMut::with_capacity(8);
    if off {
        m.put_u8(0xEE);
        m.extend_from_slice(&a);
        m.advance(1);
    } else {
        m.extend_from_slice(&a);
    }
    WorldM { m, mm: M::of(&a, 4), t: None, tm: M::of(&a, 0), f: None, fm: M::of(&a, 0) }
}

macro_rules! seq_m {
    ($name:ident, $off:expr, [$($ops:expr),+]) => {
        #[kani::proof]
        #[kani::unwind(12)]
        #[kani::stub(core::slice::index::slice_index_fail, stub_slice_index_fail)]
        pub fn $name() {
            let mut w = world_m($off);
            w.check();
            $( w.step($ops); )+
            end_reached!();
            w.finish();
        }
    };
}
// (sequences through freeze() of the shared form or symbolic resize ran out of memory - freeze is decided by the in-crate
// step harnesses arc_freeze / frozen_ops / vec_freeze_*; the ops stay available in step() for targeted use)
// op numbers: 0 split_off 1 split_to 2 truncate 3 advance 4 put_u8 5 reserve 6 unsplit 7 freeze-sibling 8 write-sibling
//             9 drop-sibling 10 drop-frozen 11 frozen->try_into_mut 12 clone-frozen 13 resize
// @h props=C01,C02,C03,C04,C07 tier=quick flags=leak group=seq note=split_off,truncate,unsplit(the_seeded_unsplit_shape)
seq_m!(seq_m_0_2_6, false, [0, 2, 6]);
// @h props=C01,C02,C03,C04,C07 tier=quick flags=leak group=seq note=split_to,advance,unsplit
seq_m!(seq_m_1_3_6, true, [1, 3, 6]);
// @h props=C01,C02,C03,C04 tier=quick flags=leak group=seq note=split_off,write_sibling,put_u8(both_halves_written)
seq_m!(seq_m_0_8_4, false, [0, 8, 4]);
// @h props=C01,C02,C03,C04,C18 tier=quick flags=leak group=seq note=split_off,reserve_next_to_a_live_sibling,write_sibling
seq_m!(seq_m_0_5_8, true, [0, 5, 8]);
// @h props=C01,C02,C03,C04,C08,C18 tier=quick flags=leak group=seq note=split_to,drop_sibling,reserve(reclaim)
seq_m!(seq_m_1_9_5, true, [1, 9, 5]);
// @h props=C01,C02,C03,C04 tier=thorough flags=leak group=seq note=split_to,advance,drop_sibling
seq_m!(seq_m_1_3_9, false, [1, 3, 9]);
// @h props=C01,C02,C03,C04,C08 tier=thorough flags=leak group=seq note=split_off,truncate,drop_sibling,reserve(reclaim)
seq_m!(seq_m_0_2_9_5, true, [0, 2, 9, 5]);

// ================================================================================== Bytes world
pub struct WorldB {
    pub b: Bytes,
    pub bm: M,
    pub c: Option<Bytes>,
    pub cm: M,
}
impl WorldB {
    pub fn check(&self) {
        agree(&self.b, &self.bm);
        if let Some(c) = &self.c {
            agree(c, &self.cm);
        }
    }
    pub fn step(&mut self, op: u32) {
        let l = self.bm.len;
        match op {
            0 => {
                let c = self.b.clone();
                assert!(c.as_ptr() == self.b.as_ptr());
                self.cm = self.bm;
                self.c = Some(c);
            }
            1 => {
                let x = any_len(MAXL);
                let y = any_len(MAXL);
                kani::assume(x <= y && y <= l);
                let s = self.b.slice(x..y);
                assert!(y == x || s.as_ptr() as usize == self.b.as_ptr() as usize + x);
                self.cm = self.bm.sub(x, y);
                self.c = Some(s);
            }
            2 => {
                let at = any_len(MAXL);
                kani::assume(at <= l);
                let t = self.b.split_off(at);
                self.cm = self.bm.sub(at, l);
                self.bm = self.bm.sub(0, at);
                self.c = Some(t);
            }
            3 => {
                let at = any_len(MAXL);
                kani::assume(at <= l);
                let h = self.b.split_to(at);
                self.cm = self.bm.sub(0, at);
                self.bm = self.bm.sub(at, l);
                self.c = Some(h);
            }
            4 => {
                let n: usize = kani::any();
                self.b.truncate(n);
                if n < l {
                    self.bm.len = n;
                }
            }
            5 => {
                let n = any_len(MAXL);
                kani::assume(n <= l);
                self.b.advance(n);
                self.bm = self.bm.sub(n, l);
            }
            6 => {
                // uniqueness is truthful: another non-empty handle exists iff c is a live non-empty view
                self.c = None;
            }
            7 => {
                // sibling converted to Vec: a copy unless it was the last handle; b unaffected
                kani::assume(self.c.is_some());
                let c = self.c.take().unwrap();
                let v: Vec<u8> = c.into();
                agree(&v, &self.cm);
            }
            8 => {
                // sibling converted to BytesMut and written: b must not see it
                kani::assume(self.c.is_some() && self.cm.len >= 1);
                let c = self.c.take().unwrap();
                let mut m: BytesMut = c.into();
                agree(&m, &self.cm);
                m[0] = m[0].wrapping_add(1);
                let v: u8 = kani::any();
                m.put_u8(v);
                drop(m);
            }
            _ => {
                let sub_ok = self.c.is_some();
                kani::assume(sub_ok);
                // slice_ref of a sub-slice of c taken through as_ref
                let c = self.c.as_ref().unwrap();
                let x = any_len(MAXL);
                let y = any_len(MAXL);
                kani::assume(x <= y && y <= c.len());
                let r = c.slice_ref(&c[x..y]);
                agree(&r, &self.cm.sub(x, y));
                assert!(y == x || r.as_ptr() as usize == c.as_ptr() as usize + x);
            }
        }
        self.check();
    }
}

macro_rules! seq_b {
    ($name:ident, $rep:expr, [$($ops:expr),+]) => {
        #[kani::proof]
        #[kani::unwind(12)]
        #[kani::stub(core::slice::index::slice_index_fail, stub_slice_index_fail)]
        pub fn $name() {
            let a: [u8; 4] = kani::any();
            let mut w = WorldB { b: mk_bytes($rep, &a), bm: M::of(&a, 4), c: None, cm: M::of(&a, 0) };
            w.check();
            $( w.step($ops); )+
            // C08 at the end: is_unique agrees with "no other non-empty handle" for heap representations
            let other = match &w.c { Some(c) => c.len() > 0, None => false };
            if $rep != Rep::Static && $rep != Rep::Owner && w.b.len() > 0 {
                assert!(w.b.is_unique() == !other || !other);
                if other {
                    assert!(!w.b.is_unique());
                }
            } else if $rep == Rep::Static || $rep == Rep::Owner {
                assert!(!w.b.is_unique());
            }
            end_reached!();
            let first: bool = kani::any();
            let WorldB { b, c, .. } = w;
            if first {
                drop(b);
                drop(c);
            } else {
                drop(c);
                drop(b);
            }
        }
    };
}
// op numbers: 0 clone 1 slice 2 split_off 3 split_to 4 truncate 5 advance 6 drop-c 7 c->Vec 8 c->BytesMut+write 9 slice_ref
// @h props=C01,C02,C03,C07,C08 tier=quick flags=leak group=seq note=promotable:clone,advance,clone->BytesMut+write
seq_b!(seq_b_promo_0_5_8, Rep::Promo, [0, 5, 8]);
// @h props=C01,C02,C03,C07,C08 tier=quick flags=leak group=seq note=promotable:split_off,truncate,sibling->Vec
seq_b!(seq_b_promo_2_4_7, Rep::Promo, [2, 4, 7]);
// @h props=C01,C02,C03,C07,C08 tier=quick flags=leak group=seq note=promotable:split_to,slice_ref,drop_sibling
seq_b!(seq_b_promo_3_9_6, Rep::Promo, [3, 9, 6]);
// @h props=C01,C02,C03,C07,C08 tier=quick flags=leak group=seq note=shared:slice,advance,sibling->BytesMut+write
seq_b!(seq_b_shared_1_5_8, Rep::Shared, [1, 5, 8]);
// @h props=C01,C02,C03,C07,C08 tier=quick flags=leak group=seq note=shared:clone,truncate,sibling->Vec
seq_b!(seq_b_shared_0_4_7, Rep::Shared, [0, 4, 7]);
// @h props=C01,C02,C03,C07,C08 tier=quick flags=leak group=seq note=owner-backed:slice,advance,sibling->BytesMut+write
seq_b!(seq_b_owner_1_5_8, Rep::Owner, [1, 5, 8]);
// @h props=C01,C02,C03,C07,C08 tier=thorough flags=leak group=seq note=static:split_off,advance,sibling->Vec
seq_b!(seq_b_static_2_5_7, Rep::Static, [2, 5, 7]);
// @h props=C01,C02,C03,C07,C08 tier=thorough flags=leak group=seq note=promoted:split_to,truncate,sibling->BytesMut+write
seq_b!(seq_b_promoted_3_4_8, Rep::Promoted, [3, 4, 8]);
// @h props=C01,C02,C03,C07,C08 tier=thorough flags=leak group=seq note=owner-backed:clone,truncate,drop_sibling
seq_b!(seq_b_owner_0_4_6, Rep::Owner, [0, 4, 6]);

// @h props=C01,C04 tier=quick flags=witness group=seq
#[kani::proof]
#[kani::unwind(12)]
pub fn seq_witness() {
    let mut w = world_m(false);
    w.step(0);
    assert!(false, "VACUITY_WITNESS");
}

// ================================================================================== from_owner with other owner types (C03)
macro_rules! owner_case {
    ($name:ident, $mk:expr, $len:expr) => {
        #[kani::proof]
        #[kani::unwind(12)]
        #[kani::stub(core::slice::index::slice_index_fail, stub_slice_index_fail)]
        pub fn $name() {
            unsafe {
                OWNER_AS_REF_CALLS = 0;
                OWNER_DROPS = 0;
            }
            let a: [u8; 4] = kani::any();
            let b = Bytes::from_owner($mk(&a));
            unsafe { assert!(OWNER_AS_REF_CALLS == 1 && OWNER_DROPS == 0) };
            assert!(b.len() == $len);
            let x = any_len(4);
            let y = any_len(4);
            kani::assume(x <= y && y <= $len);
            let s = b.slice(x..y);
            let c = b.clone();
            assert!(!b.is_unique());
            // the owner lives as long as any NON-EMPTY view (empty slices are detached)
            let how: u8 = kani::any();
            match how % 3 {
                0 => {
                    drop(b);
                    drop(c);
                    unsafe { assert!(OWNER_DROPS == if y > x { 0 } else { 1 }) };
                    if y > x {
                        let i = any_below(y - x);
                        assert!(s[i] == a[x + i]);
                    }
                    drop(s);
                }
                1 => {
                    drop(s);
                    let v: Vec<u8> = c.into();
                    unsafe { assert!(OWNER_DROPS == 0) };
                    agree(&v, &M::of(&a, $len));
                    drop(b);
                }
                _ => {
                    drop(c);
                    drop(s);
                    unsafe { assert!(OWNER_DROPS == 0) };
                    let m: BytesMut = b.into();
                    agree(&m, &M::of(&a, $len));
                }
            }
            unsafe { assert!(OWNER_DROPS == 1 && OWNER_AS_REF_CALLS == 1) };
            end_reached!();
        }
    };
}
fn mk_vec_owner(a: &[u8; 4]) -> VecOwner {
    VecOwner(vec_exact(a))
}
pub struct ZstOwner;
impl AsRef<[u8]> for ZstOwner {
    fn as_ref(&self) -> &[u8] {
        unsafe { OWNER_AS_REF_CALLS += 1 };
        &[]
    }
}
impl Drop for ZstOwner {
    fn drop(&mut self) {
        unsafe { OWNER_DROPS += 1 };
    }
}
fn mk_zst_owner(_a: &[u8; 4]) -> ZstOwner {
    ZstOwner
}
// @h props=C03,C01,C02 tier=quick flags=leak group=seq note=from_owner(heap-owning_Vec_owner):views,clone,conversions,drop_orders
owner_case!(owner_vec, mk_vec_owner, 4);
// @h props=C03,C02 tier=quick flags=leak group=seq note=from_owner(zero-sized_owner_with_empty_slice)
owner_case!(owner_zst, mk_zst_owner, 0);

// ================================================================================== remaining constructors / iterator plumbing (C01)
fn misc(which: u8) {
    let a: [u8; 3] = kani::any();
    let model = M::of(&a, 3);
    match which {
        0 => {
            let b: Bytes = a.iter().copied().collect();
            agree(&b, &model);
        }
        1 => {
            let m: BytesMut = a.iter().copied().collect();
            agree(&m, &model);
        }
        2 => {
            let mut m = BytesMut::with_capacity(4);
            m.extend(a.iter());
            agree(&m, &model);
            m.extend([0x5Au8].iter().copied());
            assert!(m.len() == 4 && m[3] == 0x5A);
        }
        3 => {
            // Extend<Bytes>
            let mut m = BytesMut::with_capacity(8);
            m.extend(core::iter::once(mk_bytes(Rep::Shared, &a)));
            m.extend(core::iter::once(Bytes::from_static(b"zz")));
            assert!(m.len() == 5);
            agree(&m[..3], &model);
            assert!(m[3] == b'z' && m[4] == b'z');
        }
        4 => {
            let b = mk_bytes(Rep::Promo, &a);
            let mut it = b.into_iter();
            assert!(it.next() == Some(a[0]) && it.next() == Some(a[1]) && it.next() == Some(a[2]) && it.next().is_none());
        }
        5 => {
            assume_ascii(&a);
            let s = unsafe { core::str::from_utf8_unchecked(&a) };
            let m = BytesMut::from(s);
            agree(&m, &model);
            let mut st = alloc::string::String::with_capacity(3);
            st.push_str(s);
            let b = Bytes::from(st);
            agree(&b, &model);
        }
        6 => {
            let b = Bytes::copy_from_slice(&a);
            agree(&b, &model);
            assert!(b.as_ptr() != a.as_ptr());
            let bx: alloc::boxed::Box<[u8]> = alloc::boxed::Box::new(a);
            let b2 = Bytes::from(bx);
            agree(&b2, &model);
        }
        7 => {
            let z = BytesMut::zeroed(3);
            assert!(z.len() == 3 && z[any_below(3)] == 0);
        }
        8 => {
            use core::fmt::Write;
            assume_ascii(&a);
            let s = unsafe { core::str::from_utf8_unchecked(&a) };
            let mut m = BytesMut::with_capacity(4);
            assert!(m.write_str(s).is_ok());
            agree(&m, &model);
        }
        9 => {
            // mutable views (DerefMut / AsMut / BorrowMut) reach exactly the handle's own bytes: writing through them in one
            // half of a split buffer is invisible through the other half
            use core::borrow::BorrowMut;
            let mut m = BytesMut::with_capacity(8);
            m.extend_from_slice(&a);
            let k = any_below(4);
            let mut tail = m.split_off(k);
            let v: u8 = kani::any();
            {
                let s: &mut [u8] = match kani::any::<u8>() % 3 {
                    0 => &mut m[..],
                    1 => m.as_mut(),
                    _ => m.borrow_mut(),
                };
                assert!(s.len() == k);
                if k > 0 {
                    s[any_below(k)] = v;
                }
            }
            agree(&tail[..], &M::of(&a[k..], 3 - k));
            {
                let s: &mut [u8] = tail.as_mut();
                assert!(s.len() == 3 - k);
                if k < 3 {
                    s[any_below(3 - k)] = v;
                }
            }
            assert!(m.len() == k);
            if k > 0 {
                let i = any_below(k);
                assert!(m[i] == a[i] || m[i] == v);
            }
        }
        _ => {
            // fmt::Write that does not fit: Err and nothing appended (a BytesMut used as a fmt sink never grows)
            use bytes::BufMut;
            use core::fmt::Write;
            assume_ascii(&a);
            let s = unsafe { core::str::from_utf8_unchecked(&a) };
            let mut m = BytesMut::with_capacity(4);
            m.put_u8(1);
            m.put_u8(2);
            let room_before = m.remaining_mut();
            let r = m.write_str(s);
            // BytesMut::remaining_mut is usize::MAX - len: the write "fits" and may grow the buffer
            assert!(room_before >= 3 && r.is_ok());
            assert!(m.len() == 5 && m[0] == 1 && m[1] == 2);
            agree(&m[2..], &model);
        }
    }
    end_reached!();
}

macro_rules! misc_case {
    ($name:ident, $which:expr) => {
        #[kani::proof]
        #[kani::unwind(8)]
        #[kani::stub(core::slice::index::slice_index_fail, stub_slice_index_fail)]
        pub fn $name() {
            misc($which);
        }
    };
}
// @h props=C01,C02,C03 tier=quick flags=leak group=seq timeout=600 note=Bytes::from_iter
misc_case!(misc_bytes_from_iter, 0);
// @h props=C01,C02,C03 tier=quick flags=leak group=seq timeout=600 note=BytesMut::from_iter
misc_case!(misc_bytesmut_from_iter, 1);
// @h props=C01,C02,C03 tier=quick flags=leak group=seq timeout=600 note=BytesMut::extend(iter)
misc_case!(misc_extend, 2);
// @h props=C01,C02,C03 tier=quick flags=leak group=seq timeout=600 note=Extend<Bytes>_for_BytesMut
misc_case!(misc_extend_bytes, 3);
// @h props=C01,C02,C03 tier=quick flags=leak group=seq timeout=600 note=IntoIterator_for_Bytes
misc_case!(misc_into_iter, 4);
// @h props=C01,C02,C03 tier=quick flags=leak group=seq timeout=600 note=From<&str>_for_BytesMut,From<String>_for_Bytes
misc_case!(misc_from_str, 5);
// @h props=C01,C02,C03 tier=quick flags=leak group=seq timeout=600 note=copy_from_slice,From<Box<[u8]>>
misc_case!(misc_copy_box, 6);
// @h props=C01,C02,C03 tier=quick flags=leak group=seq timeout=600 note=BytesMut::zeroed
misc_case!(misc_zeroed, 7);
// @h props=C01,C02,C03 tier=quick flags=leak group=seq timeout=600 note=fmt::Write_for_BytesMut
misc_case!(misc_write_str, 8);
// @h props=C01,C02,C04 tier=quick flags=leak group=seq timeout=600 note=DerefMut/AsMut/BorrowMut_of_split_halves
misc_case!(misc_mut_views, 9);
// @h props=C01,C02,C11 tier=quick flags=leak group=seq timeout=600 note=fmt::Write_for_BytesMut_growing
misc_case!(misc_write_str_grow, 10);

