//! F-BUF: lawful symbolic buffers.  Every deterministic, lawful `Buf` is observationally one
//! `SymBuf` (content, length, and how the remaining bytes are cut into chunks are all symbolic), so
//! an adapter law proved over `SymBuf` inners holds over every lawful inner, including other adapters.
use bytes::buf::UninitSlice;
use bytes::{Buf, BufMut};

#[derive(Clone, Copy)]
pub struct SymBuf<const N: usize> {
    pub data: [u8; N],
    pub len: usize,
    pub pos: usize,
    /// chunk() at position p exposes 1 + cuts[p] bytes (clipped to the rest)
    pub cuts: [u8; N],
    /// number of advance calls (ghost)
    pub advances: usize,
}

impl<const N: usize> SymBuf<N> {
    /// arbitrary content, arbitrary length 0..=N, arbitrary chunking
    pub fn any() -> Self {
        let len: usize = kani::any();
        kani::assume(len <= N);
        SymBuf { data: kani::any(), len, pos: 0, cuts: kani::any(), advances: 0 }
    }
    /// arbitrary content and chunking, exactly `len` bytes
    pub fn any_with_len(len: usize) -> Self {
        kani::assume(len <= N);
        SymBuf { data: kani::any(), len, pos: 0, cuts: kani::any(), advances: 0 }
    }
    /// the logical byte at offset i from the current position
    pub fn peek(&self, i: usize) -> u8 {
        self.data[self.pos + i]
    }
}

impl<const N: usize> Buf for SymBuf<N> {
    fn remaining(&self) -> usize {
        self.len - self.pos
    }
    fn chunk(&self) -> &[u8] {
        if self.pos >= self.len {
            return &[];
        }
        let want = 1 + self.cuts[self.pos] as usize;
        let rest = self.len - self.pos;
        let n = if want < rest { want } else { rest };
        &self.data[self.pos..self.pos + n]
    }
    fn advance(&mut self, cnt: usize) {
        assert!(cnt <= self.len - self.pos, "SymBuf::advance past the end");
        self.pos += cnt;
        self.advances += 1;
    }
}

/// Lawful symbolic `BufMut`: a window `[lo, lo+cap)` inside a larger array whose remaining bytes are
/// guards; chunk_mut() hands out 1 + cuts[p] bytes (clipped).
pub struct SymBufMut<const N: usize> {
    pub mem: [u8; N],
    pub lo: usize,
    pub cap: usize,
    pub written: usize,
    pub cuts: [u8; N],
}

impl<const N: usize> SymBufMut<N> {
    pub fn any() -> Self {
        let lo: usize = kani::any();
        let cap: usize = kani::any();
        kani::assume(lo <= N && cap <= N - lo);
        SymBufMut { mem: kani::any(), lo, cap, written: 0, cuts: kani::any() }
    }
    pub fn with(lo: usize, cap: usize) -> Self {
        kani::assume(lo <= N && cap <= N - lo);
        SymBufMut { mem: kani::any(), lo, cap, written: 0, cuts: kani::any() }
    }
    pub fn out(&self) -> &[u8] {
        &self.mem[self.lo..self.lo + self.written]
    }
}

unsafe impl<const N: usize> BufMut for SymBufMut<N> {
    fn remaining_mut(&self) -> usize {
        self.cap - self.written
    }
    unsafe fn advance_mut(&mut self, cnt: usize) {
        assert!(cnt <= self.cap - self.written, "SymBufMut::advance_mut past the end");
        self.written += cnt;
    }
    fn chunk_mut(&mut self) -> &mut UninitSlice {
        let p = self.lo + self.written;
        let rest = self.cap - self.written;
        if rest == 0 {
            return UninitSlice::new(&mut self.mem[p..p]);
        }
        let want = 1 + self.cuts[p] as usize;
        let n = if want < rest { want } else { rest };
        UninitSlice::new(&mut self.mem[p..p + n])
    }
}

/// One symbolic cut: chunks are [pos..cut) and [cut..len) (cut anywhere, including outside -> contiguous).
#[derive(Clone, Copy)]
pub struct CutBuf<const N: usize> {
    pub data: [u8; N],
    pub len: usize,
    pub pos: usize,
    pub cut: usize,
}
impl<const N: usize> Buf for CutBuf<N> {
    fn remaining(&self) -> usize {
        self.len - self.pos
    }
    fn chunk(&self) -> &[u8] {
        if self.pos < self.cut && self.cut < self.len {
            &self.data[self.pos..self.cut]
        } else {
            &self.data[self.pos..self.len]
        }
    }
    fn advance(&mut self, cnt: usize) {
        assert!(cnt <= self.len - self.pos, "CutBuf::advance past the end");
        self.pos += cnt;
    }
}

/// One symbolic cut like `CutBuf`, but PHYSICALLY fragmented: the two chunks live in two separate arrays and each is flush with
/// the END of its array.  In `CutBuf` / `SymBuf` / `StepBuf` the byte behind a chunk is the next logical byte, so code that reads
/// past the end of `chunk()` (e.g. a fast path guarded by `remaining()` instead of `chunk().len()`) still sees the right value and
/// stays inside the object; here it leaves the object and CBMC's pointer check fails.
#[derive(Clone, Copy)]
pub struct FragBuf<const N: usize> {
    a: [u8; N],
    b: [u8; N],
    cut: usize,
    len: usize,
    pub pos: usize,
}
impl<const N: usize> FragBuf<N> {
    /// logical sequence data[..len], first `cut` bytes in the first array (cut >= len: everything in the first array)
    pub fn new(data: &[u8; N], len: usize, cut: usize) -> Self {
        let cut = if cut < len { cut } else { len };
        let mut a = [0xEEu8; N];
        let mut b = [0xEEu8; N];
        let mut i = 0;
        while i < N {
            if i < cut {
                a[N - cut + i] = data[i];
            } else if i < len {
                b[N - (len - cut) + (i - cut)] = data[i];
            }
            i += 1;
        }
        FragBuf { a, b, cut, len, pos: 0 }
    }
    /// the two physical pieces (for building a `Chain` of separate objects)
    pub fn parts(&self) -> (&[u8], &[u8]) {
        (&self.a[N - self.cut..], &self.b[N - (self.len - self.cut)..])
    }
}
impl<const N: usize> Buf for FragBuf<N> {
    fn remaining(&self) -> usize {
        self.len - self.pos
    }
    fn chunk(&self) -> &[u8] {
        if self.pos < self.cut {
            &self.a[N - self.cut + self.pos..]
        } else {
            &self.b[N - (self.len - self.cut) + (self.pos - self.cut)..]
        }
    }
    fn advance(&mut self, cnt: usize) {
        assert!(cnt <= self.len - self.pos, "FragBuf::advance past the end");
        self.pos += cnt;
    }
}

/// Fixed chunk size K (K = 1: every byte is its own chunk, the maximal number of boundaries).
#[derive(Clone, Copy)]
pub struct StepBuf<const N: usize, const K: usize> {
    pub data: [u8; N],
    pub len: usize,
    pub pos: usize,
}
impl<const N: usize, const K: usize> Buf for StepBuf<N, K> {
    fn remaining(&self) -> usize {
        self.len - self.pos
    }
    fn chunk(&self) -> &[u8] {
        let rest = self.len - self.pos;
        let n = if K < rest { K } else { rest };
        &self.data[self.pos..self.pos + n]
    }
    fn advance(&mut self, cnt: usize) {
        assert!(cnt <= self.len - self.pos, "StepBuf::advance past the end");
        self.pos += cnt;
    }
}
