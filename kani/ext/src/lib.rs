//! Kani harness crate for tokio-rs/bytes (engine E1, external families).
//! Everything is under cfg(kani); a plain `cargo build` of this crate compiles to nothing.
#![allow(unused, clippy::all, static_mut_refs)]
#![cfg_attr(not(feature = "std"), no_std)]
extern crate alloc;

/// Final marker of every harness; the driver requires it SATISFIED (vacuity guard).
macro_rules! end_reached {
    () => {
        kani::cover!(true, "END_REACHED");
    };
}

#[cfg(kani)]
pub mod util;
#[cfg(kani)]
pub mod symbuf;
#[cfg(kani)]
pub mod gen;
#[cfg(all(kani, feature = "fam_probe"))]
pub mod probe;
#[cfg(all(kani, feature = "fam_c09"))]
pub mod c09;
#[cfg(all(kani, feature = "fam_c11x"))]
pub mod c11x;
#[cfg(all(kani, feature = "fam_c15"))]
pub mod c15;
#[cfg(all(kani, feature = "fam_c15s"))]
pub mod c15s;
#[cfg(all(kani, feature = "fam_c17"))]
pub mod c17;
#[cfg(all(kani, feature = "fam_seq"))]
pub mod seq;
