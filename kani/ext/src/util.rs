//! Building blocks shared by all harness families.
//!
//! Rule learnt from probes: every allocation has a *concrete* size; symbolic views are obtained with
//! the crate's own zero-copy operations (slice / advance / truncate / split), never by allocating a
//! symbolic number of bytes (a symbolic-size `to_vec` costs minutes in CBMC).
use alloc::boxed::Box;
use alloc::string::String;
use alloc::vec::Vec;
use bytes::{Buf, BufMut, Bytes, BytesMut};

/// symbolic length in 0..=max
pub fn any_len(max: usize) -> usize {
    let n: usize = kani::any();
    kani::assume(n <= max);
    n
}

/// symbolic index below n (n > 0)
pub fn any_below(n: usize) -> usize {
    let i: usize = kani::any();
    kani::assume(i < n);
    i
}

/// Vec with len == capacity == K
pub fn vec_exact<const K: usize>(a: &[u8; K]) -> Vec<u8> {
    let mut v = Vec::with_capacity(K);
    v.extend_from_slice(a);
    v
}

/// Vec with len K and capacity K + spare (spare > 0 gives the SHARED representation in `Bytes::from`)
pub fn vec_spare<const K: usize>(a: &[u8; K], spare: usize) -> Vec<u8> {
    let mut v = Vec::with_capacity(K + spare);
    v.extend_from_slice(a);
    v
}

/// ASCII-only assumption for str-typed operands
pub fn assume_ascii<const K: usize>(a: &[u8; K]) {
    let mut i = 0;
    while i < K {
        kani::assume(a[i] < 0x80);
        i += 1;
    }
}

// ----------------------------------------------------------------------------------- owner
pub static mut OWNER_AS_REF_CALLS: usize = 0;
pub static mut OWNER_DROPS: usize = 0;

pub struct ArrOwner<const K: usize>(pub [u8; K]);
impl<const K: usize> AsRef<[u8]> for ArrOwner<K> {
    fn as_ref(&self) -> &[u8] {
        unsafe { OWNER_AS_REF_CALLS += 1 };
        &self.0
    }
}
impl<const K: usize> Drop for ArrOwner<K> {
    fn drop(&mut self) {
        unsafe { OWNER_DROPS += 1 };
    }
}

/// owner that keeps its bytes on the heap (Vec) — second instantiation of from_owner
pub struct VecOwner(pub Vec<u8>);
impl AsRef<[u8]> for VecOwner {
    fn as_ref(&self) -> &[u8] {
        unsafe { OWNER_AS_REF_CALLS += 1 };
        &self.0
    }
}
impl Drop for VecOwner {
    fn drop(&mut self) {
        unsafe { OWNER_DROPS += 1 };
    }
}

// ----------------------------------------------------------------------------------- representations
#[derive(Clone, Copy, PartialEq, Eq)]
pub enum Rep {
    /// `Bytes::from_static`
    Static,
    /// `Bytes::from_owner`
    Owner,
    /// Vec with len == cap, never cloned (PROMOTABLE_EVEN / PROMOTABLE_ODD by allocator parity)
    Promo,
    /// Promo after one clone (clone dropped again): bytes::SHARED_VTABLE, ref_cnt 1
    Promoted,
    /// Vec with spare capacity: bytes::SHARED_VTABLE from the start
    Shared,
    /// BytesMut split then frozen, sibling alive elsewhere is dropped: bytes_mut::SHARED_VTABLE
    FrozenArc,
}

pub const STATIC_MAX: usize = 8;
pub static mut STATIC_BUF: [u8; STATIC_MAX] = [0; STATIC_MAX];

/// A `Bytes` of exactly the K bytes of `a` in representation `rep`.
pub fn mk_bytes<const K: usize>(rep: Rep, a: &[u8; K]) -> Bytes {
    match rep {
        Rep::Static => unsafe {
            let mut i = 0;
            while i < K {
                STATIC_BUF[i] = a[i];
                i += 1;
            }
            let s: &'static [u8] = core::slice::from_raw_parts(core::ptr::addr_of!(STATIC_BUF) as *const u8, K);
            Bytes::from_static(s)
        },
        Rep::Owner => Bytes::from_owner(ArrOwner(*a)),
        Rep::Promo => Bytes::from(vec_exact(a)),
        Rep::Promoted => {
            let b = Bytes::from(vec_exact(a));
            let c = b.clone();
            drop(c);
            b
        }
        Rep::Shared => {
            // spare capacity -> shared from the start; the view covers the initialised prefix
            Bytes::from(vec_spare(a, 2))
        }
        Rep::FrozenArc => {
            let mut m = BytesMut::with_capacity(K + 2);
            m.extend_from_slice(a);
            let tail = m.split_off(K);
            drop(tail);
            m.freeze()
        }
    }
}

#[derive(Clone, Copy, PartialEq, Eq)]
pub enum MRep {
    /// fresh inline-Vec form, offset 0, spare capacity 2
    Vec,
    /// inline-Vec form with a front offset of 1 (one junk byte advanced away)
    VecOff,
    /// shared form, sole handle (sibling dropped)
    ArcUnique,
    /// obtained from a unique shared Bytes (`Bytes -> BytesMut`, bytes::SHARED_VTABLE to_mut)
    FromBytes,
}

pub fn mk_bm<const K: usize>(rep: MRep, a: &[u8; K]) -> BytesMut {
    match rep {
        MRep::Vec => {
            let mut m = BytesMut::with_capacity(K + 2);
            m.extend_from_slice(a);
            m
        }
        MRep::VecOff => {
            let mut m = BytesMut::with_capacity(K + 3);
            m.put_u8(0xEE);
            m.extend_from_slice(a);
            m.advance(1);
            m
        }
        MRep::ArcUnique => {
            let mut m = BytesMut::with_capacity(K + 3);
            m.put_u8(0xEE);
            m.extend_from_slice(a);
            let head = m.split_to(1);
            drop(head);
            m
        }
        MRep::FromBytes => {
            let b = Bytes::from(vec_spare(a, 2));
            BytesMut::from(b)
        }
    }
}

/// handle == model, decided for every byte through one symbolic index
pub fn same_bytes(h: &[u8], model: &[u8]) -> bool {
    if h.len() != model.len() {
        return false;
    }
    if h.len() == 0 {
        return true;
    }
    let i = any_below(h.len());
    h[i] == model[i]
}

// ----------------------------------------------------------------------------------- recording hasher
pub struct RecHasher {
    pub buf: [u8; 48],
    pub n: usize,
    pub calls: usize,
}
impl RecHasher {
    pub fn new() -> Self {
        RecHasher { buf: [0; 48], n: 0, calls: 0 }
    }
}
impl core::hash::Hasher for RecHasher {
    fn finish(&self) -> u64 {
        0
    }
    fn write(&mut self, bytes: &[u8]) {
        self.calls += 1;
        // record the call boundary as well, so that "same bytes in differently split calls" differs
        if self.n < 48 {
            self.buf[self.n] = bytes.len() as u8;
            self.n += 1;
        }
        let mut i = 0;
        while i < bytes.len() {
            if self.n < 48 {
                self.buf[self.n] = bytes[i];
                self.n += 1;
            }
            i += 1;
        }
    }
}

/// Stub for `core::slice::index::slice_index_fail`: the original only formats its panic message (three
/// `const_panic!` arms); replacing it by a plain panic halves the size of every program that indexes a
/// slice with a symbolic range.  Still diverges, still reported as a failing check when reachable.
pub fn stub_slice_index_fail(_start: usize, _end: usize, _len: usize) -> ! {
    panic!("slice index out of range (stubbed slice_index_fail)")
}

// ----------------------------------------------------------------------------------- panic-site observer
// Installed with #[kani::stub(bytes::panic_advance, observing_panic_advance)]: when the crate is about to
// raise its "does not fit / advance out of bounds" panic, every guard byte registered by the harness must still
// hold the guard value, i.e. nothing outside the writable region was modified before the panic.
pub static mut OBS_PTR: *const u8 = core::ptr::null();
pub static mut OBS_N: usize = 0;
pub static mut OBS_SKIP_LO: usize = 0;
pub static mut OBS_SKIP_HI: usize = 0;
pub const OBS_GUARD: u8 = 0xA5;

/// register `n` bytes at `p` as guards, except the range [skip_lo, skip_hi) (bytes legitimately written earlier)
pub unsafe fn observe_guards(p: *const u8, n: usize, skip_lo: usize, skip_hi: usize) {
    OBS_PTR = p;
    OBS_N = n;
    OBS_SKIP_LO = skip_lo;
    OBS_SKIP_HI = skip_hi;
}

pub fn observing_panic_advance(_e: &bytes::TryGetError) -> ! {
    unsafe {
        if OBS_N > 0 {
            let i = any_below(OBS_N);
            if i < OBS_SKIP_LO || i >= OBS_SKIP_HI {
                assert!(*OBS_PTR.add(i) == OBS_GUARD, "memory modified before the does-not-fit panic was raised");
            }
        }
    }
    panic!("observed panic_advance")
}
