use crate::symbuf::SymBuf;
use crate::util::*;
use bytes::Buf;

// one symbolic cut position: chunks [0..c) and [c..len)
#[derive(Clone, Copy)]
pub struct CutBuf<const N: usize> { pub data: [u8; N], pub len: usize, pub pos: usize, pub cut: usize }
impl<const N: usize> Buf for CutBuf<N> {
    fn remaining(&self) -> usize { self.len - self.pos }
    fn chunk(&self) -> &[u8] {
        if self.pos < self.cut && self.cut < self.len { &self.data[self.pos..self.cut] } else { &self.data[self.pos..self.len] }
    }
    fn advance(&mut self, cnt: usize) { assert!(cnt <= self.len - self.pos); self.pos += cnt; }
}
// fixed chunk size K
#[derive(Clone, Copy)]
pub struct StepBuf<const N: usize, const K: usize> { pub data: [u8; N], pub len: usize, pub pos: usize }
impl<const N: usize, const K: usize> Buf for StepBuf<N, K> {
    fn remaining(&self) -> usize { self.len - self.pos }
    fn chunk(&self) -> &[u8] {
        let rest = self.len - self.pos;
        let n = if K < rest { K } else { rest };
        &self.data[self.pos..self.pos + n]
    }
    fn advance(&mut self, cnt: usize) { assert!(cnt <= self.len - self.pos); self.pos += cnt; }
}

#[kani::proof]
#[kani::unwind(20)]
pub fn p_cut_u128() {
    let mut b = CutBuf::<18> { data: kani::any(), len: any_len(18), pos: 0, cut: any_len(18) };
    let pre = any_len(2); kani::assume(pre <= b.len); b.advance(pre);
    kani::assume(b.remaining() >= 16);
    let mut m = [0u8; 16]; let mut i = 0; while i < 16 { m[i] = b.data[pre + i]; i += 1; }
    let v = b.get_u128_le();
    assert!(v == u128::from_le_bytes(m));
}
#[kani::proof]
#[kani::unwind(20)]
pub fn p_step1_u128() {
    let mut b = StepBuf::<18, 1> { data: kani::any(), len: any_len(18), pos: 0 };
    let pre = any_len(2); kani::assume(pre <= b.len); b.advance(pre);
    kani::assume(b.remaining() >= 16);
    let mut m = [0u8; 16]; let mut i = 0; while i < 16 { m[i] = b.data[pre + i]; i += 1; }
    let v = b.get_u128_le();
    assert!(v == u128::from_le_bytes(m));
}
#[kani::proof]
#[kani::unwind(20)]
pub fn p_step3_u128() {
    let mut b = StepBuf::<18, 3> { data: kani::any(), len: any_len(18), pos: 0 };
    let pre = any_len(2); kani::assume(pre <= b.len); b.advance(pre);
    kani::assume(b.remaining() >= 16);
    let mut m = [0u8; 16]; let mut i = 0; while i < 16 { m[i] = b.data[pre + i]; i += 1; }
    let v = b.get_u128_le();
    assert!(v == u128::from_le_bytes(m));
}
#[kani::proof]
#[kani::unwind(12)]
pub fn p_full_u64() {
    let mut b = SymBuf::<10>::any();
    let pre = any_len(2); kani::assume(pre <= b.len); b.advance(pre);
    kani::assume(b.remaining() >= 8);
    let mut m = [0u8; 8]; let mut i = 0; while i < 8 { m[i] = b.data[pre + i]; i += 1; }
    let v = b.get_u64_le();
    assert!(v == u64::from_le_bytes(m));
}
#[kani::proof]
#[kani::unwind(12)]
pub fn p_full_u32_nopre() {
    let mut b = SymBuf::<5>::any();
    kani::assume(b.remaining() >= 4);
    let mut m = [0u8; 4]; let mut i = 0; while i < 4 { m[i] = b.data[i]; i += 1; }
    let v = b.get_u32_le();
    assert!(v == u32::from_le_bytes(m));
}
#[kani::proof]
#[kani::unwind(20)]
pub fn q_cut_u128() {
    let mut b = CutBuf::<17> { data: kani::any(), len: 17, pos: 0, cut: any_len(17) };
    let mut m = [0u8; 16]; let mut i = 0; while i < 16 { m[i] = b.data[i]; i += 1; }
    let v = b.get_u128_le();
    assert!(v == u128::from_le_bytes(m));
    assert!(b.remaining() == 1);
}
#[kani::proof]
#[kani::unwind(20)]
pub fn q_step1_u128() {
    let mut b = StepBuf::<17, 1> { data: kani::any(), len: 17, pos: 0 };
    let mut m = [0u8; 16]; let mut i = 0; while i < 16 { m[i] = b.data[i]; i += 1; }
    let v = b.get_u128_le();
    assert!(v == u128::from_le_bytes(m));
}
#[kani::proof]
#[kani::unwind(12)]
pub fn q_full_u64() {
    let mut b = SymBuf::<9> { data: kani::any(), len: 9, pos: 0, cuts: kani::any(), advances: 0 };
    let mut m = [0u8; 8]; let mut i = 0; while i < 8 { m[i] = b.data[i]; i += 1; }
    let v = b.get_u64_le();
    assert!(v == u64::from_le_bytes(m));
}
#[kani::proof]
#[kani::unwind(20)]
pub fn q_full_u128() {
    let mut b = SymBuf::<17> { data: kani::any(), len: 17, pos: 0, cuts: kani::any(), advances: 0 };
    let mut m = [0u8; 16]; let mut i = 0; while i < 16 { m[i] = b.data[i]; i += 1; }
    let v = b.get_u128_le();
    assert!(v == u128::from_le_bytes(m));
}
pub fn stub_slice_index_fail(_s: usize, _e: usize, _l: usize) -> ! {
    panic!("slice index out of range")
}
#[kani::proof]
#[kani::unwind(20)]
#[kani::stub(core::slice::index::slice_index_fail, stub_slice_index_fail)]
pub fn r_cut_u16_stub() {
    let mut b = CutBuf::<3> { data: kani::any(), len: 3, pos: 0, cut: kani::any() };
    let mut m = [0u8; 2]; let mut i = 0; while i < 2 { m[i] = b.data[i]; i += 1; }
    let v = b.get_u16_le();
    assert!(v == u16::from_le_bytes(m));
}
#[kani::proof]
#[kani::unwind(20)]
pub fn r_cut_u16() {
    let mut b = CutBuf::<3> { data: kani::any(), len: 3, pos: 0, cut: kani::any() };
    let mut m = [0u8; 2]; let mut i = 0; while i < 2 { m[i] = b.data[i]; i += 1; }
    let v = b.get_u16_le();
    assert!(v == u16::from_le_bytes(m));
}
use bytes::{Bytes, BytesMut, BufMut};
#[kani::proof]
#[kani::unwind(7)]
pub fn fa1() {
    let a: [u8; 4] = kani::any();
    let full = mk_bytes(Rep::FrozenArc, &a);
    assert!(full.len() == 4);
}
#[kani::proof]
#[kani::unwind(7)]
pub fn fa2() {
    let a: [u8; 4] = kani::any();
    let full = mk_bytes(Rep::FrozenArc, &a);
    let o1 = any_len(4);
    let n = any_len(4 - o1);
    let l = full.slice(o1..o1 + n);
    assert!(l.len() == n);
}
#[kani::proof]
#[kani::unwind(7)]
pub fn fa3() {
    let a: [u8; 4] = kani::any();
    let mut m = BytesMut::with_capacity(6);
    m.extend_from_slice(&a);
    let tail = m.split_off(4);
    assert!(m.len() == 4);
}
#[kani::proof]
#[kani::unwind(7)]
pub fn fb1() {
    let a: [u8; 4] = kani::any();
    let mut m = BytesMut::with_capacity(6);
    m.extend_from_slice(&a);
    let tail = m.split_off(4);
    drop(tail);
    assert!(m.len() == 4);
    core::mem::forget(m);
}
#[kani::proof]
#[kani::unwind(7)]
pub fn fb2() {
    let a: [u8; 4] = kani::any();
    let mut m = BytesMut::with_capacity(6);
    m.extend_from_slice(&a);
    let tail = m.split_off(4);
    drop(tail);
    assert!(m.len() == 4);
}
#[kani::proof]
#[kani::unwind(7)]
pub fn fb3() {
    let a: [u8; 4] = kani::any();
    let mut m = BytesMut::with_capacity(6);
    m.extend_from_slice(&a);
    let tail = m.split_off(4);
    core::mem::forget(tail);
    let b = m.freeze();
    assert!(b.len() == 4);
    core::mem::forget(b);
}
#[kani::proof]
#[kani::unwind(7)]
pub fn fb4() {
    let a: [u8; 4] = kani::any();
    let mut m = BytesMut::with_capacity(6);
    m.extend_from_slice(&a);
    let tail = m.split_off(4);
    drop(m);
    drop(tail);
}
#[kani::proof]
#[kani::unwind(7)]
pub fn fc1() {
    let a: [u8; 4] = kani::any();
    let mut m = BytesMut::with_capacity(6);
    m.extend_from_slice(&a);
    let tail = m.split_off(4);
    core::mem::forget(tail);
    let b = m.freeze();
    assert!(b.len() == 4);
    drop(b);
}
#[kani::proof]
#[kani::unwind(7)]
pub fn fc2() {
    let a: [u8; 4] = kani::any();
    let mut m = BytesMut::with_capacity(6);
    m.extend_from_slice(&a);
    let tail = m.split_off(4);
    drop(tail);
    let b = m.freeze();
    assert!(b.len() == 4);
    core::mem::forget(b);
}
