// In-crate step harnesses for src/bytes_mut.rs (F-STEP).  Child module of `bytes::bytes_mut`.
// States: I-bm-vec (inline-Vec form: allocation of V bytes, symbolic front offset, capacity reaching the end of the
// allocation, symbolic len) and I-bm-arc (shared form: bytes_mut::Shared{vec(base, V), repr, ref_count = r}, handle
// region [off, off+cap) anywhere inside, symbolic len <= cap, ghost neighbours on both sides when r > 1), and the
// frozen form (Bytes with the bytes_mut SHARED_VTABLE).  One operation per harness, arguments symbolic over all of
// usize where the argument is a request size.
#![allow(unused, static_mut_refs)]
#![cfg(kani)]
#![cfg(feature = "std")] // the allocator stubs forward to std::alloc::System
use super::*;
use alloc::boxed::Box;
use alloc::vec::Vec;
use core::alloc::Layout;

include!("/verif/kani/common/odd_alloc.rs");

#[cfg(not(verif_big))]
pub const V: usize = 8;
#[cfg(verif_big)]
pub const V: usize = 16;

macro_rules! end_reached {
    () => {
        kani::cover!(true, "END_REACHED");
    };
}
macro_rules! counting {
    ($(#[$m:meta])* pub fn $name:ident() $body:block) => {
        $(#[$m])*
        #[kani::proof]
        #[cfg_attr(not(verif_big), kani::unwind(10))]
#[cfg_attr(verif_big, kani::unwind(19))]
        #[kani::stub(std::alloc::alloc, cnt_alloc)]
        #[kani::stub(std::alloc::dealloc, cnt_dealloc)]
        #[kani::stub(std::alloc::realloc, cnt_realloc)]
        #[kani::stub(alloc::alloc::dealloc_nonnull, cnt_dealloc_nonnull)]
        #[kani::stub(alloc::alloc::realloc_nonnull, cnt_realloc_nonnull)]
        pub fn $name() $body
    };
}

fn any_below(n: usize) -> usize {
    let i: usize = kani::any();
    kani::assume(i < n);
    i
}
fn any_upto(n: usize) -> usize {
    let i: usize = kani::any();
    kani::assume(i <= n);
    i
}

unsafe fn new_buf(data: &[u8; V]) -> *mut u8 {
    let buf = alloc::alloc::alloc(Layout::from_size_align(V, 1).unwrap());
    let mut i = 0;
    while i < V {
        *buf.add(i) = data[i];
        i += 1;
    }
    buf
}

pub struct G {
    pub data: [u8; V],
    pub base: *mut u8,
    pub off: usize,
    pub len: usize,
    pub cap: usize,
    pub r: usize,
    pub sh: *mut Shared,
}

/// I-bm-vec: sole handle, inline-Vec form
unsafe fn st_vec() -> (BytesMut, G) {
    let data: [u8; V] = kani::any();
    let base = new_buf(&data);
    let off = any_upto(V);
    let cap = V - off;
    let len = any_upto(cap);
    let repr = original_capacity_to_repr(V);
    let d = (off << VEC_POS_OFFSET) | (repr << ORIGINAL_CAPACITY_OFFSET) | KIND_VEC;
    let m = BytesMut { ptr: vptr(base.add(off)), len, cap, data: invalid_ptr(d) };
    (m, G { data, base, off, len, cap, r: 1, sh: core::ptr::null_mut() })
}

/// I-bm-arc: shared form with reference count r; when `unique` the count is 1
unsafe fn st_arc(unique: bool) -> (BytesMut, G) {
    let data: [u8; V] = kani::any();
    let base = new_buf(&data);
    let r: usize = kani::any();
    kani::assume(r >= 1 && r <= (usize::MAX >> 1));
    if unique {
        kani::assume(r == 1);
    }
    let vlen = any_upto(V);
    let repr: usize = kani::any();
    kani::assume(repr <= 7);
    let sh = Box::into_raw(Box::new(Shared {
        vec: Vec::from_raw_parts(base, vlen, V),
        original_capacity_repr: repr,
        ref_count: AtomicUsize::new(r),
    }));
    let off = any_upto(V);
    let cap = any_upto(V - off);
    let len = any_upto(cap);
    let m = BytesMut { ptr: vptr(base.add(off)), len, cap, data: sh };
    (m, G { data, base, off, len, cap, r, sh })
}

unsafe fn cnt(g: &G) -> usize {
    (*g.sh).ref_count.load(Ordering::Relaxed)
}
unsafe fn set_cnt(g: &G, n: usize) {
    (*g.sh).ref_count.store(n, Ordering::Relaxed)
}
/// bytes of the ORIGINAL allocation outside [lo, hi) are unchanged (ghost neighbours never see a write)
unsafe fn outside_unchanged(g: &G, lo: usize, hi: usize) {
    let i = any_below(V);
    if i < lo || i >= hi {
        assert!(*g.base.add(i) == g.data[i]);
    }
}
fn content_is(m: &BytesMut, g: &G) {
    assert!(m.len() == g.len);
    if g.len > 0 {
        let i = any_below(g.len);
        assert!(m[i] == g.data[g.off + i]);
    }
}
/// [ptr, ptr+cap) lies inside one live allocation
unsafe fn region_ok(m: &BytesMut) {
    assert!(m.len <= m.cap);
    if m.cap > 0 {
        assert!(kani::mem::can_write_unaligned(core::ptr::slice_from_raw_parts_mut(m.ptr.as_ptr(), m.cap)));
    }
}
/// the representation invariant (I-bm-vec / I-bm-arc of DESIGN 4.3) holds for a handle on the allocation [base, base+V):
/// this is what makes the single steps compose into histories of any length
unsafe fn inv_bm(m: &BytesMut, g: &G) {
    let p = m.ptr.as_ptr() as usize;
    let b = g.base as usize;
    assert!(m.len <= m.cap);
    if m.kind() == KIND_VEC {
        let off = m.get_vec_pos();
        assert!(off <= MAX_VEC_POS);
        assert!(p - off == b);
        assert!(off + m.cap == V); // the capacity of the inline-Vec form reaches the end of the allocation
    } else {
        let sh = m.data;
        assert!((sh as usize) & KIND_MASK == KIND_ARC);
        assert!((*sh).vec.as_ptr() as usize == b && (*sh).vec.capacity() == V);
        assert!(p >= b && p + m.cap <= b + V);
        assert!((*sh).ref_count.load(Ordering::Relaxed) >= 1);
    }
}

unsafe fn finish_arc(g: &G, live: usize) {
    // release ghost references: the count becomes the number of real handles the harness still holds
    set_cnt(g, live);
}

// ================================================================================== pure capacity-class functions (all usize)
// @h props=C04,C18 tier=quick group=step note=original_capacity_to_repr/from_repr_for_all_usize
#[kani::proof]
pub fn original_capacity_fns() {
    let c: usize = kani::any();
    let r = original_capacity_to_repr(c);
    assert!(r <= MAX_ORIGINAL_CAPACITY_WIDTH - MIN_ORIGINAL_CAPACITY_WIDTH);
    let back = original_capacity_from_repr(r);
    assert!(back <= c || c == 0 || back == 0);
    assert!(back <= c);
    if c < (1 << MIN_ORIGINAL_CAPACITY_WIDTH) {
        assert!(r == 0 && back == 0);
    } else {
        assert!(r >= 1 && back >= (1 << MIN_ORIGINAL_CAPACITY_WIDTH));
    }
    let c2: usize = kani::any();
    if c2 >= c {
        assert!(original_capacity_to_repr(c2) >= r);
    }
    assert!(back <= (1 << (MAX_ORIGINAL_CAPACITY_WIDTH - 1)));
    end_reached!();
}

// ================================================================================== base cases: the public constructors establish I-bm-vec
// @h props=C01,C02,C04 tier=quick flags=leak group=step note=constructors_establish_the_invariant(with_capacity,from_slice,zeroed,Bytes->BytesMut_copy)
#[kani::proof]
#[cfg_attr(not(verif_big), kani::unwind(10))]
#[cfg_attr(verif_big, kani::unwind(19))]
pub fn ctor_base_cases() {
    unsafe {
        let which: u8 = kani::any();
        kani::assume(which < 3);
        let data: [u8; V] = kani::any();
        let m = match which {
            0 => {
                let mut m = BytesMut::with_capacity(V);
                m.extend_from_slice(&data[..3]);
                m
            }
            1 => BytesMut::from(&data[..]),
            _ => BytesMut::zeroed(V),
        };
        assert!(m.kind() == KIND_VEC && m.get_vec_pos() == 0);
        assert!(m.cap == V && m.len <= m.cap);
        assert!(kani::mem::can_write_unaligned(core::ptr::slice_from_raw_parts_mut(m.ptr.as_ptr(), m.cap)));
        let repr = (m.data as usize & ORIGINAL_CAPACITY_MASK) >> ORIGINAL_CAPACITY_OFFSET;
        assert!(repr == original_capacity_to_repr(V));
        if which == 1 {
            let i = any_below(V);
            assert!(m[i] == data[i]);
        }
        end_reached!();
    }
}

// ================================================================================== try_reclaim / reserve: inline-Vec form
counting! {
    // @h props=C04,C02,C08,C13,C16,C18 tier=quick flags=leak group=step note=try_reclaim(additional_over_all_usize)_inline_vec_form
    pub fn vec_try_reclaim() {
        unsafe {
            let (mut m, g) = st_vec();
            let add: usize = kani::any();
            let (p0, l0, c0, d0) = (m.ptr, m.len, m.cap, m.data);
            let ev0 = alloc_events();
            let ok = m.try_reclaim(add);
            assert!(alloc_events() == ev0); // never allocates, frees or reallocates
            inv_bm(&m, &g);
            if ok {
                assert!(m.capacity() - m.len() >= add);
                content_is(&m, &g);
                region_ok(&m);
                assert!(m.ptr.as_ptr() == p0.as_ptr() || m.ptr.as_ptr() == g.base);
            } else {
                assert!(m.ptr == p0 && m.len == l0 && m.cap == c0 && m.data == d0);
            }
            // C08: an empty sole owner can always take the whole allocation back
            if g.len == 0 && add <= V {
                assert!(ok);
            }
            kani::cover!(ok && m.ptr.as_ptr() != p0.as_ptr(), "shifted to the front");
            kani::cover!(!ok, "refused");
            kani::cover!(add == usize::MAX, "additional == usize::MAX");
            end_reached!();
        }
    }
}

counting! {
    // @h props=C04,C02,C18 tier=quick flags=leak group=step note=reserve_that_can_be_satisfied_in_place_inline_vec_form
    pub fn vec_reserve_in_place() {
        unsafe {
            let (mut m, g) = st_vec();
            let add: usize = kani::any();
            // requests that the reclaim rule (off >= len and enough room incl. the front gap) can satisfy
            kani::assume(add <= g.cap - g.len || (g.off >= g.len && g.cap - g.len + g.off >= add));
            let ev0 = alloc_events();
            m.reserve(add);
            assert!(alloc_events() == ev0);
            assert!(m.capacity() - m.len() >= add);
            content_is(&m, &g);
            region_ok(&m);
            inv_bm(&m, &g);
            end_reached!();
        }
    }
}

macro_rules! vec_reserve_grow {
    ($name:ident, $add:expr) => {
        counting! {
            pub fn $name() {
                unsafe {
                    // growth: the request becomes an allocation size, so it is concrete; state stays symbolic
                    let (mut m, g) = st_vec();
                    let add: usize = $add;
                    kani::assume(!(add <= g.cap - g.len || (g.off >= g.len && g.cap - g.len + g.off >= add)));
                    let b0 = N_ALLOC_BYTEBUF;
                    m.reserve(add);
                    assert!(m.capacity() - m.len() >= add);
                    content_is(&m, &g);
                    region_ok(&m);
                    assert!(N_ALLOC_BYTEBUF - b0 <= 1);
                    end_reached!();
                }
            }
        }
    };
}
// @h props=C04,C02,C18 tier=quick flags=leak group=step note=reserve(9)_forces_growth_inline_vec_form
vec_reserve_grow!(vec_reserve_grow_9, 9);
// @h props=C04,C02,C18 tier=thorough flags=leak group=step note=reserve(3)_growth_when_front_gap_too_small
vec_reserve_grow!(vec_reserve_grow_3, 3);

counting! {
    // @h props=C04,C13,C16 tier=quick group=step allow=@PANIC@ must_fail=@PANIC@ note=reserve_with_unrepresentable_total_must_not_return(inline_vec)
    pub fn vec_reserve_overflow() {
        unsafe {
            let (mut m, g) = st_vec();
            kani::assume(g.len > 0);
            let add: usize = kani::any();
            kani::assume(add > isize::MAX as usize);
            end_reached!();
            m.reserve(add);
            assert!(false, "RETURNED: reserve of an unrepresentable size must panic");
        }
    }
}

// ================================================================================== try_reclaim / reserve: shared form
counting! {
    // @h props=C04,C02,C08,C13,C16,C18 tier=quick flags=leak group=step note=try_reclaim(additional_over_all_usize)_shared_form_any_refcount
    pub fn arc_try_reclaim() {
        unsafe {
            let (mut m, g) = st_arc(false);
            let add: usize = kani::any();
            let (p0, l0, c0, d0) = (m.ptr, m.len, m.cap, m.data);
            let ev0 = alloc_events();
            let ok = m.try_reclaim(add);
            assert!(alloc_events() == ev0);
            assert!(cnt(&g) == g.r);
            inv_bm(&m, &g);
            if ok {
                assert!(m.capacity() - m.len() >= add);
                content_is(&m, &g);
                region_ok(&m);
                // the handle may only have grown over memory nobody else can hold: either it did not change, or it
                // was the only handle
                assert!((m.ptr == p0 && m.cap == c0) || g.r == 1);
                if g.r != 1 {
                    outside_unchanged(&g, g.off, g.off + g.cap);
                }
            } else {
                assert!(m.ptr == p0 && m.len == l0 && m.cap == c0 && m.data == d0);
                outside_unchanged(&g, V, V);
            }
            if g.len == 0 && g.r == 1 && add <= V {
                assert!(ok); // C08
            }
            kani::cover!(ok && g.r == 1 && m.ptr.as_ptr() == g.base && g.off > 0, "copied to the front of the allocation");
            kani::cover!(ok && g.r == 1 && m.cap > c0 && m.ptr == p0, "extended in place");
            kani::cover!(!ok && g.r == 1, "unique but refused");
            kani::cover!(!ok && g.r > 1, "not unique: refused");
            finish_arc(&g, 1);
            end_reached!();
        }
    }
}

counting! {
    // @h props=C04,C02,C18 tier=quick flags=leak group=step note=reserve_on_unique_shared_form_that_reclaim_rules_can_satisfy
    pub fn arc_reserve_in_place() {
        unsafe {
            let (mut m, g) = st_arc(true);
            let add: usize = kani::any();
            kani::assume(add <= V); // representable; the near-usize::MAX region is vec/arc_try_reclaim's and arc_reserve_overflow's
            let need = g.len + add;
            kani::assume(add <= g.cap - g.len || V >= need + g.off || (V >= need && g.off >= g.len));
            let ev0 = alloc_events();
            m.reserve(add);
            assert!(alloc_events() == ev0);
            assert!(m.capacity() - m.len() >= add);
            content_is(&m, &g);
            region_ok(&m);
            inv_bm(&m, &g);
            finish_arc(&g, 1);
            end_reached!();
        }
    }
}

macro_rules! arc_reserve_new {
    ($name:ident, $add:expr, $unique:expr) => {
        counting! {
            pub fn $name() {
                unsafe {
                    let (mut m, g) = st_arc($unique);
                    let add: usize = $add;
                    if $unique {
                        let need = g.len + add;
                        kani::assume(!(add <= g.cap - g.len || V >= need + g.off || (V >= need && g.off >= g.len)));
                    } else {
                        kani::assume(g.r > 1 && add > g.cap - g.len);
                        // keep the new buffer small: capacity classes >= 1 KiB are covered by arc_reserve_new_repr
                        kani::assume((*g.sh).original_capacity_repr == 0);
                    }
                    m.reserve(add);
                    assert!(m.capacity() - m.len() >= add);
                    content_is(&m, &g);
                    region_ok(&m);
                    if !$unique {
                        // moved to a fresh buffer; the old one lost exactly this handle and is untouched
                        assert!(cnt(&g) == g.r - 1);
                        outside_unchanged(&g, V, V);
                        assert!(m.kind() == KIND_VEC);
                        finish_arc(&g, 1);
                        release_shared(g.sh);
                    } else {
                        finish_arc(&g, 1);
                    }
                    end_reached!();
                }
            }
        }
    };
}
// @h props=C04,C02,C01,C03,C18 tier=quick flags=leak group=step note=reserve(3)_on_shared_buffer_with_other_handles_moves_to_a_new_buffer
arc_reserve_new!(arc_reserve_new_shared_3, 3, false);
// @h props=C04,C02,C18 tier=quick flags=leak group=step note=reserve(9)_on_unique_shared_form_grows_the_vector
arc_reserve_new!(arc_reserve_grow_unique_9, 9, true);

counting! {
    // @h props=C04,C18 tier=quick flags=leak group=step note=new_buffer_size_uses_the_original_capacity_class(symbolic_repr_1..=7)
    pub fn arc_reserve_new_repr() {
        unsafe {
            let (mut m, g) = st_arc(false);
            kani::assume(g.r > 1 && g.len <= 2);
            let repr = (*g.sh).original_capacity_repr;
            kani::assume(repr >= 1);
            let add: usize = 3;
            kani::assume(add > g.cap - g.len);
            m.reserve(add);
            assert!(m.capacity() >= original_capacity_from_repr(repr));
            assert!(m.capacity() - m.len() >= add);
            assert!(LAST_ALLOC_SIZE == original_capacity_from_repr(repr));
            content_is(&m, &g);
            assert!(cnt(&g) == g.r - 1);
            kani::cover!(repr == 7, "largest capacity class (64 KiB)");
            finish_arc(&g, 1);
            release_shared(g.sh);
            end_reached!();
        }
    }
}

counting! {
    // @h props=C04,C13,C16 tier=quick group=step allow=@PANIC@ must_fail=@PANIC@ note=reserve_with_unrepresentable_total_must_not_return(shared_form)
    pub fn arc_reserve_overflow() {
        unsafe {
            let (mut m, g) = st_arc(false);
            kani::assume(g.len > 0);
            let add: usize = kani::any();
            kani::assume(add > isize::MAX as usize);
            end_reached!();
            m.reserve(add);
            assert!(false, "RETURNED: reserve of an unrepresentable size must panic");
        }
    }
}

// ================================================================================== splits
unsafe fn split_post(a: &BytesMut, b: &BytesMut) {
    // disjoint, both inside the allocation
    let (pa, pb) = (a.ptr.as_ptr() as usize, b.ptr.as_ptr() as usize);
    assert!(pa + a.cap <= pb || pb + b.cap <= pa);
    region_ok(a);
    region_ok(b);
}

macro_rules! split_family {
    ($name:ident, $st:expr, $counted:expr) => {
        #[kani::proof]
        #[cfg_attr(not(verif_big), kani::unwind(10))]
#[cfg_attr(verif_big, kani::unwind(19))]
        pub fn $name() {
            unsafe {
                let (mut m, g) = $st;
                let op: u8 = kani::any();
                kani::assume(op < 3);
                let p0 = m.ptr.as_ptr();
                let other;
                let (self_lo, self_hi, oth_lo, oth_hi); // model views relative to the old view start
                match op {
                    0 => {
                        let at = any_upto(g.cap);
                        other = m.split_off(at);
                        assert!(m.ptr.as_ptr() == p0 && m.cap == at);
                        assert!(other.ptr.as_ptr() == p0.add(at) && other.cap == g.cap - at);
                        self_lo = 0;
                        self_hi = if g.len < at { g.len } else { at };
                        oth_lo = at;
                        oth_hi = if g.len > at { g.len } else { at };
                        kani::cover!(at > g.len, "split_off inside the spare capacity");
                    }
                    1 => {
                        let at = any_upto(g.len);
                        other = m.split_to(at);
                        assert!(other.ptr.as_ptr() == p0 && other.cap == at && other.len == at);
                        assert!(m.ptr.as_ptr() == p0.add(at) && m.cap == g.cap - at);
                        self_lo = at;
                        self_hi = g.len;
                        oth_lo = 0;
                        oth_hi = at;
                    }
                    _ => {
                        other = m.split();
                        assert!(other.ptr.as_ptr() == p0 && other.len == g.len && other.cap == g.len);
                        assert!(m.ptr.as_ptr() == p0.add(g.len) && m.len == 0 && m.cap == g.cap - g.len);
                        self_lo = g.len;
                        self_hi = g.len;
                        oth_lo = 0;
                        oth_hi = g.len;
                    }
                }
                assert!(m.len == self_hi - self_lo && other.len == oth_hi - oth_lo);
                if m.len > 0 {
                    let i = any_below(m.len);
                    assert!(m[i] == g.data[g.off + self_lo + i]);
                }
                if other.len > 0 {
                    let i = any_below(other.len);
                    assert!(other[i] == g.data[g.off + oth_lo + i]);
                }
                split_post(&m, &other);
                assert!(m.kind() == KIND_ARC && other.kind() == KIND_ARC && m.data == other.data);
                inv_bm(&m, &g);
                inv_bm(&other, &g);
                let sh = m.data;
                let now = (*sh).ref_count.load(Ordering::Relaxed);
                if $counted {
                    assert!(now == g.r + 1);
                } else {
                    assert!(now == 2);
                    assert!((*sh).vec.as_ptr() == g.base as *const u8 && (*sh).vec.capacity() == V);
                }
                outside_unchanged(&g, V, V);
                // write probe: filling one half's spare capacity is invisible through the other
                let fill: u8 = kani::any();
                let w: bool = kani::any();
                if w {
                    let before = if other.len > 0 { Some((any_below(other.len))) } else { None };
                    let old = before.map(|i| other[i]);
                    let n = m.cap - m.len;
                    m.put_bytes(fill, n);
                    if let (Some(i), Some(o)) = (before, old) {
                        assert!(other[i] == o);
                    }
                } else {
                    let before = if m.len > 0 { Some((any_below(m.len))) } else { None };
                    let old = before.map(|i| m[i]);
                    let mut other = other;
                    let n = other.cap - other.len;
                    other.put_bytes(fill, n);
                    if let (Some(i), Some(o)) = (before, old) {
                        assert!(m[i] == o);
                    }
                    (*sh).ref_count.store(2, Ordering::Relaxed);
                    drop(other);
                    drop(m);
                    end_reached!();
                    return;
                }
                (*sh).ref_count.store(2, Ordering::Relaxed);
                let first: bool = kani::any();
                if first {
                    drop(m);
                    drop(other);
                } else {
                    drop(other);
                    drop(m);
                }
                end_reached!();
            }
        }
    };
}
// @h props=C01,C02,C03,C04,C07,C16 tier=quick flags=leak group=step note=split_off/split_to/split_from_inline_vec_form(promotion_to_shared)
split_family!(vec_split, st_vec(), false);
// @h props=C01,C02,C03,C04,C07,C16 tier=quick flags=leak group=step note=split_off/split_to/split_from_shared_form_any_refcount
split_family!(arc_split, st_arc(false), true);

// ================================================================================== in-place view / length operations
macro_rules! inplace_family {
    ($name:ident, $st:expr, $counted:expr) => {
        #[kani::proof]
        #[cfg_attr(not(verif_big), kani::unwind(10))]
#[cfg_attr(verif_big, kani::unwind(19))]
        pub fn $name() {
            unsafe {
                let (mut m, g) = $st;
                let op: u8 = kani::any();
                kani::assume(op < 6);
                let p0 = m.ptr.as_ptr();
                let (mut lo, mut hi) = (0usize, g.len);
                let mut appended: Option<(usize, u8)> = None;
                match op {
                    0 => {
                        let n = any_upto(g.len);
                        m.advance(n);
                        assert!(m.ptr.as_ptr() == p0.add(n) && m.cap == g.cap - n);
                        lo = n;
                    }
                    1 => {
                        let n: usize = kani::any();
                        m.truncate(n);
                        assert!(m.ptr.as_ptr() == p0 && m.cap == g.cap);
                        hi = if n < g.len { n } else { g.len };
                    }
                    2 => {
                        m.clear();
                        assert!(m.ptr.as_ptr() == p0 && m.cap == g.cap);
                        hi = 0;
                    }
                    3 => {
                        // resize within capacity (growth is reserve's business)
                        let n = any_upto(g.cap);
                        let v: u8 = kani::any();
                        m.resize(n, v);
                        assert!(m.ptr.as_ptr() == p0 && m.cap == g.cap && m.len == n);
                        if n > g.len {
                            let i = any_below(n - g.len);
                            assert!(m[g.len + i] == v);
                        }
                        hi = if n < g.len { n } else { g.len };
                        m.truncate(hi);
                    }
                    4 => {
                        // append within capacity
                        kani::assume(g.cap - g.len >= 1);
                        let v: u8 = kani::any();
                        m.extend_from_slice(&[v]);
                        assert!(m.ptr.as_ptr() == p0 && m.cap == g.cap && m.len == g.len + 1);
                        assert!(m[g.len] == v);
                        m.truncate(g.len);
                    }
                    _ => {
                        let n = any_upto(g.cap);
                        m.set_len(n);
                        assert!(m.len == n && m.cap == g.cap && m.ptr.as_ptr() == p0);
                        hi = if n < g.len { n } else { g.len };
                        m.set_len(hi);
                    }
                }
                assert!(m.len == hi - lo);
                if hi > lo {
                    let i = any_below(hi - lo);
                    assert!(m[i] == g.data[g.off + lo + i]);
                }
                region_ok(&m);
                inv_bm(&m, &g);
                // nothing outside the handle's own region was written
                outside_unchanged(&g, g.off, g.off + g.cap);
                if $counted {
                    assert!(cnt(&g) == g.r);
                    finish_arc(&g, 1);
                }
                end_reached!();
            }
        }
    };
}
// @h props=C01,C02,C04,C07 tier=quick flags=leak group=step note=advance/truncate/clear/resize/extend/set_len_inline_vec_form
inplace_family!(vec_inplace, st_vec(), false);
// @h props=C01,C02,C04,C07 tier=quick flags=leak group=step note=advance/truncate/clear/resize/extend/set_len_shared_form
inplace_family!(arc_inplace, st_arc(false), true);

// ================================================================================== unsplit of two real neighbours
// @h props=C01,C02,C03,C04,C07 tier=quick flags=leak group=step note=unsplit_of_adjacent_and_non-adjacent_halves_of_one_shared_buffer
#[kani::proof]
#[cfg_attr(not(verif_big), kani::unwind(10))]
#[cfg_attr(verif_big, kani::unwind(19))]
pub fn arc_unsplit() {
    unsafe {
        // two real handles on one shared buffer: A = [off, off+cap_a) and B starting right at A's capacity end or
        // elsewhere; lengths symbolic
        let (mut a, g) = st_arc(false);
        kani::assume(g.r >= 2);
        let b_off = any_upto(V);
        kani::assume(b_off >= g.off + g.cap);
        let b_cap = any_upto(V - b_off);
        let b_len = any_upto(b_cap);
        let b = BytesMut { ptr: vptr(g.base.add(b_off)), len: b_len, cap: b_cap, data: g.sh };
        let p0 = a.ptr.as_ptr();
        a.unsplit(b);
        // model: a ++ b, always (zero-copy when b really follows a's LAST BYTE, copy otherwise)
        assert!(a.len == g.len + b_len);
        if g.len > 0 {
            let i = any_below(g.len);
            assert!(a[i] == g.data[g.off + i]);
        }
        if b_len > 0 {
            let i = any_below(b_len);
            assert!(a[g.len + i] == g.data[b_off + i]);
        }
        region_ok(&a);
        let zero_copy = g.len > 0 && b_cap > 0 && b_off == g.off + g.len;
        if zero_copy {
            assert!(a.ptr.as_ptr() == p0 && a.cap == g.cap + b_cap);
        }
        kani::cover!(zero_copy, "adjacent halves merged without copying");
        kani::cover!(g.len > 0 && g.len < g.cap && b_off == g.off + g.cap && b_len > 0, "b follows a's capacity but not a's last byte");
        if a.data == g.sh {
            // a is still on the shared buffer; b's reference was given back
            assert!(cnt(&g) == g.r - 1);
            inv_bm(&a, &g);
            finish_arc(&g, 1);
        } else {
            // a had to move to its own buffer (copy path with growth): both references were given back
            if g.r > 2 {
                assert!(cnt(&g) == g.r - 2);
                finish_arc(&g, 1);
                release_shared(g.sh);
            }
            // g.r == 2: the shared buffer is gone (freed exactly once; CBMC's double-free / leak checks)
        }
        end_reached!();
    }
}

// ================================================================================== freeze and the frozen vtable
/// I-bm-vec with a concrete shape (freeze hands (off+len, capacity) to Vec/Box code whose cost explodes on symbolic
/// sizes); contents stay symbolic
unsafe fn st_vec_at(off: usize, len: usize) -> (BytesMut, G) {
    let data: [u8; V] = kani::any();
    let base = new_buf(&data);
    let cap = V - off;
    let repr = original_capacity_to_repr(V);
    let d = (off << VEC_POS_OFFSET) | (repr << ORIGINAL_CAPACITY_OFFSET) | KIND_VEC;
    let m = BytesMut { ptr: vptr(base.add(off)), len, cap, data: invalid_ptr(d) };
    (m, G { data, base, off, len, cap, r: 1, sh: core::ptr::null_mut() })
}

macro_rules! vec_freeze_case {
    ($name:ident, $off:expr, $len:expr) => {
        #[kani::proof]
        #[cfg_attr(not(verif_big), kani::unwind(10))]
#[cfg_attr(verif_big, kani::unwind(19))]
        pub fn $name() {
            unsafe {
                let (m, g) = st_vec_at($off, $len);
                let p0 = m.ptr.as_ptr() as *const u8;
                let b = m.freeze();
                assert!(b.len() == g.len);
                if g.len > 0 {
                    assert!(b.as_ptr() == p0);
                    let i = any_below(g.len);
                    assert!(b[i] == g.data[g.off + i]);
                }
                // the frozen handle is a fully working Bytes: clone, drop in either order
                let c = b.clone();
                let first: bool = kani::any();
                if first {
                    drop(b);
                    if g.len > 0 {
                        let i = any_below(g.len);
                        assert!(c[i] == g.data[g.off + i]);
                    }
                    drop(c);
                } else {
                    drop(c);
                    drop(b);
                }
                end_reached!();
            }
        }
    };
}
// C18 "round trips through Bytes and back": freeze() followed by BytesMut::from of the (unique) result is a pure relabelling - no
// byte-buffer allocation, same allocation, same capacity - for every shape of the inline form, including the EMPTY handle that
// still owns capacity (the recycling buffer right after clear()).
macro_rules! vec_roundtrip_case {
    ($name:ident, $off:expr, $len:expr) => {
        counting! {
            pub fn $name() {
                unsafe {
                    let (m, g) = st_vec_at($off, $len);
                    let p0 = m.ptr.as_ptr();
                    let cap0 = m.capacity();
                    let a0 = N_ALLOC_BYTEBUF;
                    let b = m.freeze();
                    let m2 = BytesMut::from(b);
                    assert!(N_ALLOC_BYTEBUF == a0);
                    assert!(m2.len() == g.len);
                    assert!(m2.capacity() == cap0);
                    assert!(m2.ptr.as_ptr() == p0);
                    if g.len > 0 {
                        let i = any_below(g.len);
                        assert!(m2[i] == g.data[g.off + i]);
                    }
                    drop(m2);
                    end_reached!();
                }
            }
        }
    };
}
// @h props=C18,C07,C03 tier=quick flags=leak group=step note=round_trip_of_the_EMPTY_inline_buffer_with_capacity(off=0)
vec_roundtrip_case!(vec_roundtrip_empty, 0, 0);
// @h props=C18,C07,C03 tier=quick flags=leak group=step note=round_trip_of_the_empty_inline_buffer_after_advance(off=3)
vec_roundtrip_case!(vec_roundtrip_empty_off, 3, 0);
// @h props=C18,C07,C03 tier=quick flags=leak group=step note=round_trip_with_spare_capacity_and_offset
vec_roundtrip_case!(vec_roundtrip_spare_off, 2, 3);
// @h props=C18,C07,C03 tier=thorough flags=leak group=step note=round_trip_of_a_full_inline_buffer(promotable)
vec_roundtrip_case!(vec_roundtrip_full, 0, V);

// @h props=C01,C02,C03,C07,C18 tier=quick flags=leak group=step note=freeze_full_vec(len==cap,off=0)_becomes_promotable
vec_freeze_case!(vec_freeze_full, 0, V);
// @h props=C01,C02,C03,C07,C18 tier=quick flags=leak group=step note=freeze_vec_with_spare_capacity_and_offset_becomes_shared+advance
vec_freeze_case!(vec_freeze_spare_off, 2, 3);
// @h props=C01,C02,C03,C07,C18 tier=quick flags=leak group=step note=freeze_full_vec_with_offset(promotable+advance)
vec_freeze_case!(vec_freeze_full_off, 3, V - 3);
// @h props=C01,C02,C03,C07 tier=thorough flags=leak group=step note=freeze_empty_vec
vec_freeze_case!(vec_freeze_empty, 0, 0);

/// I-frozen-arc: Bytes with the bytes_mut SHARED_VTABLE on an arbitrary shared state
unsafe fn st_frozen() -> (Bytes, G) {
    let (m, mut g) = st_arc(false);
    let ptr = m.ptr.as_ptr();
    let len = m.len;
    core::mem::forget(m);
    g.cap = len;
    let b = Bytes::with_vtable(ptr, len, AtomicPtr::new(g.sh.cast()), &SHARED_VTABLE);
    (b, g)
}

// @h props=C01,C02,C03,C07,C08,C18 tier=quick flags=leak group=step note=freeze_shared_form_is_a_relabel_that_keeps_the_reference(incl._empty_parts)
#[kani::proof]
#[cfg_attr(not(verif_big), kani::unwind(10))]
#[cfg_attr(verif_big, kani::unwind(19))]
pub fn arc_freeze() {
    unsafe {
        let (m, g) = st_arc(false);
        let p0 = m.ptr.as_ptr() as *const u8;
        let b = m.freeze();
        assert!(b.len() == g.len && cnt(&g) == g.r);
        if g.len > 0 {
            assert!(b.as_ptr() == p0);
            let i = any_below(g.len);
            assert!(b[i] == g.data[g.off + i]);
        }
        // the frozen handle (also an EMPTY one) is the holder of the reference the BytesMut had: it is unique exactly
        // when the BytesMut was the only handle
        assert!(b.is_unique() == (g.r == 1));
        // (observing the same through a clone of the frozen handle exhausts CBMC's memory: unresolved vtable)
        kani::cover!(g.len == 0 && g.r == 1, "empty sole owner frozen");
        core::mem::forget(b);
        // the frozen handle still owns one reference: release it and the ghosts
        finish_arc(&g, 1);
        release_shared(g.sh);
        end_reached!();
    }
}

// @h props=C01,C02,C03,C04,C07,C08,C18 tier=quick flags=leak group=step note=frozen_vtable:clone/into_vec/into_mut/is_unique/drop_from_arbitrary_state
#[kani::proof]
#[cfg_attr(not(verif_big), kani::unwind(10))]
#[cfg_attr(verif_big, kani::unwind(19))]
pub fn frozen_ops() {
    unsafe {
        let (b, g) = st_frozen();
        let op: u8 = kani::any();
        kani::assume(op < 5);
        let p0 = b.as_ptr();
        match op {
            0 => {
                let c = (SHARED_VTABLE.clone)(&AtomicPtr::new(g.sh.cast()), p0, g.len);
                assert!(c.as_ptr() == p0 && c.len() == g.len && cnt(&g) == g.r + 1);
                core::mem::forget(c);
                core::mem::forget(b);
                finish_arc(&g, 1);
                release_shared(g.sh);
            }
            1 => {
                let v = (SHARED_VTABLE.into_vec)(&AtomicPtr::new(g.sh.cast()), p0, g.len);
                core::mem::forget(b);
                assert!(v.len() == g.len);
                if g.len > 0 {
                    let i = any_below(g.len);
                    assert!(v[i] == g.data[g.off + i]);
                }
                if g.r == 1 {
                    assert!(v.as_ptr() == g.base as *const u8 && v.capacity() == V);
                } else {
                    assert!(cnt(&g) == g.r - 1);
                    outside_unchanged(&g, V, V);
                    finish_arc(&g, 1);
                    release_shared(g.sh);
                }
            }
            2 => {
                let m = (SHARED_VTABLE.into_mut)(&AtomicPtr::new(g.sh.cast()), p0, g.len);
                core::mem::forget(b);
                assert!(m.len() == g.len);
                if g.len > 0 {
                    let i = any_below(g.len);
                    assert!(m[i] == g.data[g.off + i]);
                }
                if g.r == 1 {
                    // zero-copy: same address and the capacity ends exactly at the end of the allocation
                    assert!(m.as_ptr() == p0);
                    assert!(m.capacity() == V - g.off);
                    region_ok(&m);
                    finish_arc(&g, 1);
                } else {
                    assert!(cnt(&g) == g.r - 1);
                    outside_unchanged(&g, V, V);
                    region_ok(&m);
                    finish_arc(&g, 1);
                    release_shared(g.sh);
                }
                kani::cover!(g.r == 1 && g.off > 0, "unique frozen view with a front offset");
            }
            3 => {
                assert!((SHARED_VTABLE.is_unique)(&AtomicPtr::new(g.sh.cast())) == (g.r == 1));
                core::mem::forget(b);
                finish_arc(&g, 1);
                release_shared(g.sh);
            }
            _ => {
                let mut d = AtomicPtr::new(g.sh.cast());
                (SHARED_VTABLE.drop)(&mut d, p0, g.len);
                core::mem::forget(b);
                if g.r != 1 {
                    assert!(cnt(&g) == g.r - 1);
                    outside_unchanged(&g, V, V);
                    finish_arc(&g, 1);
                    release_shared(g.sh);
                }
            }
        }
        end_reached!();
    }
}

// ================================================================================== conversions to Vec and drop
// @h props=C01,C02,C03 tier=quick flags=leak group=step note=From<BytesMut>_for_Vec_inline_vec_form
#[kani::proof]
#[cfg_attr(not(verif_big), kani::unwind(10))]
#[cfg_attr(verif_big, kani::unwind(19))]
pub fn vec_into_vec() {
    unsafe {
        let (m, g) = st_vec();
        let v: Vec<u8> = m.into();
        assert!(v.len() == g.len && v.as_ptr() == g.base as *const u8 && v.capacity() == V);
        if g.len > 0 {
            let i = any_below(g.len);
            assert!(v[i] == g.data[g.off + i]);
        }
        kani::cover!(g.off > 0 && g.off < g.len, "overlapping copy to the front");
        end_reached!();
    }
}

// @h props=C01,C02,C03,C08 tier=quick flags=leak group=step note=From<BytesMut>_for_Vec_shared_form_any_refcount
#[kani::proof]
#[cfg_attr(not(verif_big), kani::unwind(10))]
#[cfg_attr(verif_big, kani::unwind(19))]
pub fn arc_into_vec() {
    unsafe {
        let (m, g) = st_arc(false);
        let v: Vec<u8> = m.into();
        assert!(v.len() == g.len);
        if g.len > 0 {
            let i = any_below(g.len);
            assert!(v[i] == g.data[g.off + i]);
        }
        if g.r == 1 {
            assert!(v.as_ptr() == g.base as *const u8 && v.capacity() == V);
        } else {
            // the consumed handle gave its reference back; the others keep reading the same bytes
            assert!(cnt(&g) == g.r - 1);
            outside_unchanged(&g, V, V);
            finish_arc(&g, 1);
            release_shared(g.sh);
        }
        end_reached!();
    }
}

// @h props=C02,C03 tier=quick flags=leak group=step note=Drop_for_BytesMut_both_forms
#[kani::proof]
#[cfg_attr(not(verif_big), kani::unwind(10))]
#[cfg_attr(verif_big, kani::unwind(19))]
pub fn drop_step() {
    unsafe {
        let arc: bool = kani::any();
        if arc {
            let (m, g) = st_arc(false);
            drop(m);
            if g.r != 1 {
                assert!(cnt(&g) == g.r - 1);
                outside_unchanged(&g, V, V);
                finish_arc(&g, 1);
                release_shared(g.sh);
            }
        } else {
            let (m, g) = st_vec();
            drop(m);
        }
        end_reached!();
    }
}

// ================================================================================== C18: one recycling round from the class R(C)
// R(V): one BytesMut, sole owner of its allocation, EMPTY (everything consumed and the parts dropped).  One round =
// reserve(n) / fill / consume / drop the consumed part.  No byte buffer may be allocated and the handle must end in R(V)
// again on the SAME allocation.  Form and way of consuming are concrete per harness (freeze of the shared form is the
// expensive operation for CBMC), n / k / offsets are symbolic.
macro_rules! recycle {
    ($name:ident, $shared_form:expr, $how:expr) => {
        counting! {
            pub fn $name() {
                unsafe {
                    let (mut m, g) = if $shared_form { st_arc(true) } else { st_vec() };
                    kani::assume(g.len == 0);
                    let n = any_upto(V);
                    let ev0 = alloc_events();
                    m.reserve(n);
                    assert!(alloc_events() == ev0);
                    assert!(m.capacity() >= n);
                    m.set_len(n);
                    let byte_allocs0 = N_ALLOC_BYTEBUF;
                    match $how {
                        0 => {
                            let k = any_upto(n);
                            let part = m.split_to(k);
                            drop(part);
                            m.clear();
                        }
                        1 => {
                            // also the zero-length part (n == 0): a keep-alive frame.  Dropping a frozen handle whose
                            // vtable CBMC cannot resolve is out of reach (explores every vtable's drop); instead the
                            // harness observes that the frozen part really holds the reference it inherited (a clone of
                            // it is counted on the same control block) and then gives the two references back itself.
                            let part = m.split().freeze();
                            let sh = m.data;
                            assert!((*sh).ref_count.load(Ordering::Relaxed) == 2);
                            let c = part.clone();
                            assert!((*sh).ref_count.load(Ordering::Relaxed) == 3);
                            core::mem::forget(c);
                            core::mem::forget(part);
                            (*sh).ref_count.store(1, Ordering::Relaxed);
                        }
                        2 => {
                            let k = any_upto(n);
                            m.advance(k);
                            m.truncate(0);
                        }
                        _ => {
                            let part = m.split();
                            drop(part);
                        }
                    }
                    assert!(N_ALLOC_BYTEBUF == byte_allocs0);
                    assert!(m.len() == 0);
                    let again = m.try_reclaim(V);
                    assert!(again && m.capacity() >= V);
                    assert!(m.ptr.as_ptr() == g.base);
                    if m.kind() == KIND_ARC {
                        assert!((*m.data).ref_count.load(Ordering::Relaxed) == 1);
                    }
                    kani::cover!(n == 0, "empty round");
                    kani::cover!(n == V, "full round");
                    end_reached!();
                }
            }
        }
    };
}
// @h props=C18,C08 tier=quick flags=leak group=step note=recycling_round_inline_form_split_to(promotes_to_shared)
recycle!(recycle_vec_split_to, false, 0);
// @h props=C18,C08 tier=quick flags=leak group=step note=recycling_round_shared_form_split_to
recycle!(recycle_arc_split_to, true, 0);
// (split+freeze as the way of consuming: freeze() after a split inside one harness exhausts CBMC's memory; the freeze step is
// decided on its own from an arbitrary shared state, incl. the zero-length part, by arc_freeze: the frozen part holds exactly
// the reference the BytesMut had, so dropping it returns the buffer to the sole-owner class this round starts from)
// @h props=C18,C08 tier=quick flags=leak group=step note=recycling_round_inline_form_advance+truncate
recycle!(recycle_vec_advance, false, 2);
// @h props=C18,C08 tier=quick flags=leak group=step note=recycling_round_shared_form_advance+truncate
recycle!(recycle_arc_advance, true, 2);
// @h props=C18,C08 tier=quick flags=leak group=step note=recycling_round_shared_form_split_and_drop
recycle!(recycle_arc_split, true, 3);

// @h props=C04,C01 tier=quick flags=witness group=step
#[kani::proof]
#[cfg_attr(not(verif_big), kani::unwind(10))]
#[cfg_attr(verif_big, kani::unwind(19))]
pub fn witness() {
    unsafe {
        let (mut m, g) = st_arc(false);
        let ok = m.try_reclaim(kani::any());
        content_is(&m, &g);
        assert!(false, "VACUITY_WITNESS");
    }
}

// ================================================================================== F-OOC: out-of-contract arguments (C13 clause i)
macro_rules! ooc {
    ($name:ident, $st:expr, |$m:ident, $g:ident| $body:block) => {
        #[kani::proof]
        #[cfg_attr(not(verif_big), kani::unwind(10))]
#[cfg_attr(verif_big, kani::unwind(19))]
        pub fn $name() {
            unsafe {
                let (mut $m, $g) = $st;
                end_reached!();
                $body;
                assert!(false, "RETURNED: out-of-contract call returned");
            }
        }
    };
}
// @h props=C13,C02,C04 tier=quick group=ooc allow=@PANIC@ must_fail=@PANIC@ note=BytesMut::split_off(at>capacity)_vec_form
ooc!(ooc_split_off_vec, st_vec(), |m, g| {
    let at: usize = kani::any();
    kani::assume(at > g.cap);
    let _ = m.split_off(at);
});
// @h props=C13,C02,C04 tier=quick group=ooc allow=@PANIC@ must_fail=@PANIC@ note=BytesMut::split_off(at>capacity)_shared_form
ooc!(ooc_split_off_arc, st_arc(false), |m, g| {
    let at: usize = kani::any();
    kani::assume(at > g.cap);
    let _ = m.split_off(at);
});
// @h props=C13,C02,C04 tier=quick group=ooc allow=@PANIC@ must_fail=@PANIC@ note=BytesMut::split_to(at>len)_incl._len<at<=capacity
ooc!(ooc_split_to, st_arc(false), |m, g| {
    let at: usize = kani::any();
    kani::assume(at > g.len);
    let _ = m.split_to(at);
});
// @h props=C13,C02,C04 tier=quick group=ooc allow=@PANIC@ must_fail=@PANIC@ note=BytesMut::advance(n>len)_incl._len<n<=capacity_vec_form
ooc!(ooc_advance_vec, st_vec(), |m, g| {
    let n: usize = kani::any();
    kani::assume(n > g.len);
    m.advance(n);
});
// @h props=C13,C02,C04 tier=quick group=ooc allow=@PANIC@ must_fail=@PANIC@ note=BytesMut::advance(n>len)_shared_form
ooc!(ooc_advance_arc, st_arc(false), |m, g| {
    let n: usize = kani::any();
    kani::assume(n > g.len);
    m.advance(n);
});
// @h props=C13,C02,C04 tier=quick group=ooc allow=@PANIC@ must_fail=@PANIC@ note=BufMut::advance_mut(cnt>spare_capacity)
ooc!(ooc_advance_mut, st_vec(), |m, g| {
    let n: usize = kani::any();
    kani::assume(n > g.cap - g.len);
    BufMut::advance_mut(&mut m, n);
});
// @h props=C13,C02,C04 tier=quick group=ooc allow=@PANIC@ must_fail=@PANIC@ note=BytesMut::resize(len_beyond_isize::MAX)
ooc!(ooc_resize_huge, st_vec(), |m, g| {
    let n: usize = kani::any();
    kani::assume(n > isize::MAX as usize);
    m.resize(n, 0);
});

// @h props=C13,C01 tier=quick flags=leak group=ooc note=documented_no-ops:truncate_beyond_len_and_failed_try_reclaim_leave_the_handle_bit-identical
#[kani::proof]
#[cfg_attr(not(verif_big), kani::unwind(10))]
#[cfg_attr(verif_big, kani::unwind(19))]
pub fn noop_truncate() {
    unsafe {
        let (mut m, g) = st_arc(false);
        let n: usize = kani::any();
        kani::assume(n >= g.len);
        let (p, l, c, d) = (m.ptr, m.len, m.cap, m.data);
        m.truncate(n);
        assert!(m.ptr == p && m.len == l && m.cap == c && m.data == d && cnt(&g) == g.r);
        content_is(&m, &g);
        finish_arc(&g, 1);
        end_reached!();
    }
}

// ================================================================================== C13 (ii): nothing of the handle is modified when Vec's capacity-overflow panic is raised
// Kani cannot run the unwinding, but it can look at the handle AT the panic site: `alloc::raw_vec::capacity_overflow`
// (the panic raised inside Vec::reserve / Vec::with_capacity for unrepresentable sizes) is replaced by an observer
// that compares the registered handle with the snapshot taken before the call.  If the fields are bit-identical when
// the panic starts, unwinding hands the caller the handle it had before (Shared::vec's unused length field, which
// reserve_inner sets before growing a uniquely owned shared buffer, is not part of the handle and is not observed).
pub static mut OBS_HANDLE: *const BytesMut = core::ptr::null();
pub static mut OBS_SNAP: (usize, usize, usize, usize) = (0, 0, 0, 0);
pub static mut OBS_HITS: usize = 0;
pub fn observing_capacity_overflow() -> ! {
    unsafe {
        OBS_HITS += 1;
        if !OBS_HANDLE.is_null() {
            let h = &*OBS_HANDLE;
            assert!(h.ptr.as_ptr() as usize == OBS_SNAP.0, "handle modified before the capacity-overflow panic: ptr");
            assert!(h.len == OBS_SNAP.1, "handle modified before the capacity-overflow panic: len");
            assert!(h.cap == OBS_SNAP.2, "handle modified before the capacity-overflow panic: cap");
            assert!(h.data as usize == OBS_SNAP.3, "handle modified before the capacity-overflow panic: data");
        }
    }
    panic!("observed capacity overflow")
}
unsafe fn observe(m: &BytesMut) {
    OBS_HANDLE = m as *const BytesMut;
    OBS_SNAP = (m.ptr.as_ptr() as usize, m.len, m.cap, m.data as usize);
}

macro_rules! observed_overflow {
    ($name:ident, $st:expr, |$m:ident, $n:ident| $call:expr) => {
        #[kani::proof]
        #[cfg_attr(not(verif_big), kani::unwind(10))]
#[cfg_attr(verif_big, kani::unwind(19))]
        #[kani::stub(alloc::raw_vec::capacity_overflow, observing_capacity_overflow)]
        pub fn $name() {
            unsafe {
                let (mut $m, g) = $st;
                kani::assume(g.len > 0);
                let $n: usize = kani::any();
                kani::assume($n > isize::MAX as usize);
                observe(&$m);
                end_reached!();
                $call;
                assert!(false, "RETURNED: an unrepresentable capacity request returned");
            }
        }
    };
}
// @h props=C13,C04 tier=quick group=ooc allow=^observed.capacity.overflow.@|^overflow.@|core::option::expect_failed must_fail=^observed.capacity.overflow.@ note=inline-Vec_form:reserve(huge)_handle_untouched_when_Vec's_panic_starts
observed_overflow!(vec_reserve_overflow_observed, st_vec(), |m, n| m.reserve(n));
// @h props=C13,C04 tier=quick group=ooc allow=^observed.capacity.overflow.@|^overflow.@|core::option::expect_failed must_fail=^observed.capacity.overflow.@|^overflow.@|expect_failed note=shared_form:reserve(huge)_handle_untouched_when_the_panic_starts
observed_overflow!(arc_reserve_overflow_observed, st_arc(false), |m, n| m.reserve(n));
// @h props=C13,C04 tier=quick group=ooc allow=^observed.capacity.overflow.@|^overflow.@|core::option::expect_failed must_fail=^observed.capacity.overflow.@ note=inline-Vec_form:resize(huge)_handle_untouched_when_the_panic_starts
observed_overflow!(vec_resize_overflow_observed, st_vec(), |m, n| m.resize(n, 0));
