#![allow(unused)]
#![cfg(kani)]
use super::*;
