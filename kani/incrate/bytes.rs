// In-crate step harnesses for src/bytes.rs (F-STEP).  Compiled as `bytes::bytes::verif_incrate` through the guarded
// #[path] hook, so private fields and functions are visible.  Every harness starts from an ARBITRARY state that
// satisfies the representation invariant of one vtable (symbolic contents, view, and reference count over its
// whole range), performs ONE operation and checks: result contents (symbolic index), address (zero-copy),
// reference-count delta, capacity handed out, uniqueness answer; CBMC adds bounds / use-after-free / double-free /
// dealloc-size checks and, with --memory-leak-check, "nothing leaked".  Ghost references invented by the state
// constructor are released by the harness at the end (the count is set to the number of real handles it holds).
#![allow(unused, static_mut_refs)]
#![cfg(kani)]
#![cfg(feature = "std")] // the allocator stubs forward to std::alloc::System
// (harness metadata for macro-generated harnesses is declared with `// @reg name=... ` lines)
    use super::*;
    use alloc::boxed::Box;
    use alloc::vec::Vec;
    use core::alloc::Layout;

    include!("/verif/kani/common/odd_alloc.rs");

    #[cfg(not(verif_big))]
    pub const CAP: usize = 4;
    #[cfg(verif_big)]
    pub const CAP: usize = 8;

    macro_rules! end_reached {
        () => {
            kani::cover!(true, "END_REACHED");
        };
    }

    fn any_below(n: usize) -> usize {
        let i: usize = kani::any();
        kani::assume(i < n);
        i
    }

    /// fresh byte buffer of exactly CAP bytes with symbolic contents (through the global allocator, so that the
    /// allocator stubs decide its address parity)
    unsafe fn new_buf(data: &[u8; CAP]) -> *mut u8 {
        let buf = alloc::alloc::alloc(Layout::from_size_align(CAP, 1).unwrap());
        let mut i = 0;
        while i < CAP {
            *buf.add(i) = data[i];
            i += 1;
        }
        buf
    }

    pub struct Ghost {
        pub data: [u8; CAP],
        pub buf: *mut u8,
        pub off: usize,
        pub len: usize,
        pub r: usize,
        pub sh: *mut Shared,
    }

    /// symbolic view (off, len) inside CAP
    fn any_view() -> (usize, usize) {
        let off: usize = kani::any();
        let len: usize = kani::any();
        kani::assume(off <= CAP && len <= CAP - off);
        (off, len)
    }

    fn any_refcount() -> usize {
        let r: usize = kani::any();
        kani::assume(r >= 1 && r <= (usize::MAX >> 1));
        r
    }

    /// I-shared: data -> bytes::Shared{buf, cap, ref_cnt = r >= 1}, view anywhere inside the buffer
    unsafe fn st_shared(vt: &'static Vtable) -> (Bytes, Ghost) {
        let data: [u8; CAP] = kani::any();
        let buf = new_buf(&data);
        let r = any_refcount();
        let sh = Box::into_raw(Box::new(Shared { buf, cap: CAP, ref_cnt: AtomicUsize::new(r) }));
        let (off, len) = any_view();
        let b = Bytes { ptr: buf.add(off), len, data: AtomicPtr::new(sh.cast()), vtable: vt };
        (b, Ghost { data, buf, off, len, r, sh })
    }

    /// I-promo: never-cloned Vec-backed handle: data = tagged buffer pointer, exactly one handle, and the view ENDS
    /// at the end of the allocation (what `truncate`'s promotion preserves); the vtable is chosen the way
    /// `From<Box<[u8]>>` chooses it (address parity).
    unsafe fn st_promo() -> (Bytes, Ghost, bool) {
        let data: [u8; CAP] = kani::any();
        let buf = new_buf(&data);
        let off: usize = kani::any();
        kani::assume(off <= CAP);
        let len = CAP - off;
        let even = (buf as usize) & 1 == 0;
        let b = if even {
            Bytes { ptr: buf.add(off), len, data: AtomicPtr::new(ptr_map(buf, |a| a | KIND_VEC).cast()), vtable: &PROMOTABLE_EVEN_VTABLE }
        } else {
            Bytes { ptr: buf.add(off), len, data: AtomicPtr::new(buf.cast()), vtable: &PROMOTABLE_ODD_VTABLE }
        };
        (b, Ghost { data, buf, off, len, r: 1, sh: core::ptr::null_mut() }, even)
    }

    unsafe fn cnt(g: &Ghost) -> usize {
        (*g.sh).ref_cnt.load(Ordering::Relaxed)
    }
    unsafe fn set_cnt(g: &Ghost, n: usize) {
        (*g.sh).ref_cnt.store(n, Ordering::Relaxed)
    }
    /// the buffer still holds the original bytes (other handles' views are unchanged)
    unsafe fn buf_unchanged(g: &Ghost) {
        let i = any_below(CAP);
        assert!(*g.buf.add(i) == g.data[i]);
    }
    fn view_eq(s: &[u8], g: &Ghost) {
        assert!(s.len() == g.len);
        if g.len > 0 {
            let i = any_below(g.len);
            assert!(s[i] == g.data[g.off + i]);
        }
    }

// @reg name=shared::clone_step props=C01,C02,C03,C07,C16 tier=quick flags=leak group=step note=clone_step_on_arbitrary_shared_state
// @reg name=shared::to_vec_step props=C01,C02,C03,C16 tier=quick flags=leak group=step note=to_vec_step_on_arbitrary_shared_state
// @reg name=shared::to_mut_step props=C01,C02,C03,C04,C07,C08,C16,C18 tier=quick flags=leak group=step note=to_mut_step_on_arbitrary_shared_state
// @reg name=shared::unique_step props=C08,C16 tier=quick flags=leak group=step note=unique_step_on_arbitrary_shared_state
// @reg name=shared::drop_step props=C02,C03,C16 tier=quick flags=leak group=step note=drop_step_on_arbitrary_shared_state
// @reg name=promoted_even::clone_step props=C01,C02,C03,C07,C16 tier=quick flags=leak group=step note=clone_step_on_arbitrary_promoted_even_state
// @reg name=promoted_even::to_vec_step props=C01,C02,C03,C16 tier=quick flags=leak group=step note=to_vec_step_on_arbitrary_promoted_even_state
// @reg name=promoted_even::to_mut_step props=C01,C02,C03,C04,C07,C08,C16,C18 tier=quick flags=leak group=step note=to_mut_step_on_arbitrary_promoted_even_state
// @reg name=promoted_even::unique_step props=C08,C16 tier=quick flags=leak group=step note=unique_step_on_arbitrary_promoted_even_state
// @reg name=promoted_even::drop_step props=C02,C03,C16 tier=quick flags=leak group=step note=drop_step_on_arbitrary_promoted_even_state
// @reg name=promoted_odd::clone_step props=C01,C02,C03,C07,C16 tier=quick flags=leak group=step note=clone_step_on_arbitrary_promoted_odd_state
// @reg name=promoted_odd::to_vec_step props=C01,C02,C03,C16 tier=quick flags=leak group=step note=to_vec_step_on_arbitrary_promoted_odd_state
// @reg name=promoted_odd::to_mut_step props=C01,C02,C03,C04,C07,C08,C16,C18 tier=quick flags=leak group=step note=to_mut_step_on_arbitrary_promoted_odd_state
// @reg name=promoted_odd::unique_step props=C08,C16 tier=quick flags=leak group=step note=unique_step_on_arbitrary_promoted_odd_state
// @reg name=promoted_odd::drop_step props=C02,C03,C16 tier=quick flags=leak group=step note=drop_step_on_arbitrary_promoted_odd_state
// @reg name=promo_to_vec_even props=C01,C02,C03,C16 tier=quick flags=leak group=step note=promo_to_vec_even_address
// @reg name=promo_to_vec_odd props=C01,C02,C03,C16 tier=quick flags=leak group=step note=promo_to_vec_odd_address
// @reg name=promo_to_mut_even props=C01,C02,C03,C04,C07,C08,C16,C18 tier=quick flags=leak group=step note=promo_to_mut_even_address
// @reg name=promo_to_mut_odd props=C01,C02,C03,C04,C07,C08,C16,C18 tier=quick flags=leak group=step note=promo_to_mut_odd_address
// @reg name=promo_drop_even props=C02,C03,C16 tier=quick flags=leak group=step note=promo_drop_even_address
// @reg name=promo_drop_odd props=C02,C03,C16 tier=quick flags=leak group=step note=promo_drop_odd_address
// @reg name=promo_view_ops_even props=C01,C02,C03,C07,C08,C13,C16 tier=quick flags=leak group=step note=promo_view_ops_even_address
// @reg name=promo_view_ops_odd props=C01,C02,C03,C07,C08,C13,C16 tier=quick flags=leak group=step note=promo_view_ops_odd_address
// @reg name=ctor_from_vec_exact_even props=C01,C02,C03,C07,C16 tier=quick flags=leak group=step note=ctor_from_vec_exact_even_address
// @reg name=ctor_from_vec_exact_odd props=C01,C02,C03,C07,C16 tier=quick flags=leak group=step note=ctor_from_vec_exact_odd_address

    // ================================================================================== shared vtable (and the
    // KIND_ARC branches of the promotable vtables: same state, the handle merely carries a promotable vtable)
    macro_rules! shared_family {
        ($modname:ident, $vt:expr, $cloned_vt_is_shared:expr) => {
            pub mod $modname {
                use super::*;

                // (registered below) props=C01,C02,C03,C07,C16 tier=quick flags=leak group=step note=clone_from_arbitrary_shared_state
                #[kani::proof]
                #[cfg_attr(not(verif_big), kani::unwind(6))]
    #[cfg_attr(verif_big, kani::unwind(11))]
                pub fn clone_step() {
                    unsafe {
                        let (b, g) = st_shared($vt);
                        let c = b.clone();
                        assert!(c.ptr == b.ptr && c.len == g.len);
                        assert!(core::ptr::eq(c.vtable, &SHARED_VTABLE));
                        assert!(c.data.load(Ordering::Relaxed) == g.sh.cast());
                        assert!(cnt(&g) == g.r + 1);
                        view_eq(c.as_slice(), &g);
                        view_eq(b.as_slice(), &g);
                        buf_unchanged(&g);
                        set_cnt(&g, 2);
                        let first: bool = kani::any();
                        if first {
                            drop(b);
                            assert!(cnt(&g) == 1);
                            view_eq(c.as_slice(), &g);
                            drop(c);
                        } else {
                            drop(c);
                            assert!(cnt(&g) == 1);
                            view_eq(b.as_slice(), &g);
                            drop(b);
                        }
                        kani::cover!(g.r == usize::MAX >> 1, "largest legal reference count");
                        end_reached!();
                    }
                }

                // (registered below) props=C01,C02,C03,C16 tier=quick flags=leak group=step note=into_vec_from_arbitrary_shared_state
                #[kani::proof]
                #[cfg_attr(not(verif_big), kani::unwind(6))]
    #[cfg_attr(verif_big, kani::unwind(11))]
                pub fn to_vec_step() {
                    unsafe {
                        let (b, g) = st_shared($vt);
                        let v: Vec<u8> = b.into();
                        view_eq(&v, &g);
                        if g.r == 1 {
                            // sole owner: the allocation itself is handed over (copy-back to the front)
                            assert!(v.as_ptr() == g.buf as *const u8);
                            assert!(v.capacity() == CAP);
                        } else {
                            assert!(cnt(&g) == g.r - 1);
                            buf_unchanged(&g);
                            assert!(v.as_ptr() != g.buf as *const u8);
                            set_cnt(&g, 1);
                            release_shared(g.sh);
                        }
                        kani::cover!(g.r == 1 && g.off > 0 && g.len > 0, "unique, view not at the front: copy-back");
                        kani::cover!(g.r > 1, "shared: copy");
                        end_reached!();
                    }
                }

                // (registered below) props=C01,C02,C03,C04,C07,C08,C16 tier=quick flags=leak group=step note=into_mut_from_arbitrary_shared_state
                #[kani::proof]
                #[cfg_attr(not(verif_big), kani::unwind(6))]
    #[cfg_attr(verif_big, kani::unwind(11))]
                pub fn to_mut_step() {
                    unsafe {
                        let (b, g) = st_shared($vt);
                        let old_ptr = b.ptr;
                        let m: BytesMut = b.into();
                        view_eq(&m[..], &g);
                        if g.r == 1 {
                            // zero-copy: same address, capacity reaches exactly to the end of the allocation
                            assert!(m.as_ptr() == old_ptr);
                            assert!(m.capacity() == CAP - g.off);
                            buf_unchanged(&g);
                        } else {
                            assert!(cnt(&g) == g.r - 1);
                            buf_unchanged(&g);
                            assert!(m.as_ptr() != old_ptr || g.len == 0);
                            assert!(m.capacity() >= g.len);
                            set_cnt(&g, 1);
                            release_shared(g.sh);
                        }
                        kani::cover!(g.r == 1 && g.off == CAP, "unique, empty view at the very end");
                        end_reached!();
                    }
                }

                // (registered below) props=C08,C16 tier=quick flags=leak group=step note=is_unique_and_try_into_mut_from_arbitrary_shared_state
                #[kani::proof]
                #[cfg_attr(not(verif_big), kani::unwind(6))]
    #[cfg_attr(verif_big, kani::unwind(11))]
                pub fn unique_step() {
                    unsafe {
                        let (b, g) = st_shared($vt);
                        assert!(b.is_unique() == (g.r == 1));
                        let old_ptr = b.ptr;
                        match b.try_into_mut() {
                            Ok(m) => {
                                assert!(g.r == 1);
                                assert!(m.as_ptr() == old_ptr && m.len() == g.len);
                            }
                            Err(b) => {
                                assert!(g.r != 1);
                                assert!(b.ptr == old_ptr && b.len == g.len && cnt(&g) == g.r);
                                set_cnt(&g, 1);
                                drop(b);
                            }
                        }
                        end_reached!();
                    }
                }

                // (registered below) props=C02,C03,C16 tier=quick flags=leak group=step note=drop_from_arbitrary_shared_state
                #[kani::proof]
                #[cfg_attr(not(verif_big), kani::unwind(6))]
    #[cfg_attr(verif_big, kani::unwind(11))]
                pub fn drop_step() {
                    unsafe {
                        let (b, g) = st_shared($vt);
                        drop(b);
                        if g.r != 1 {
                            // not the last handle: storage must still be alive and intact
                            assert!(cnt(&g) == g.r - 1);
                            buf_unchanged(&g);
                            set_cnt(&g, 1);
                            release_shared(g.sh);
                        }
                        // r == 1: buffer and control block were freed (nothing leaked, checked by CBMC)
                        end_reached!();
                    }
                }
            }
        };
    }
    shared_family!(shared, &SHARED_VTABLE, true);
    shared_family!(promoted_even, &PROMOTABLE_EVEN_VTABLE, true);
    shared_family!(promoted_odd, &PROMOTABLE_ODD_VTABLE, true);

    // ================================================================================== view arithmetic (representation independent,
    // except truncate which promotes a promotable handle first)
    // @h props=C01,C02,C03,C07,C08,C13 tier=quick flags=leak group=step note=slice/split/advance/truncate/clear_on_shared_state
    #[kani::proof]
    #[cfg_attr(not(verif_big), kani::unwind(6))]
    #[cfg_attr(verif_big, kani::unwind(11))]
    pub fn view_ops_shared() {
        unsafe {
            let (mut b, g) = st_shared(&SHARED_VTABLE);
            view_ops(&mut b, &g, true);
            end_reached!();
        }
    }

    /// one symbolic view operation with in-contract symbolic arguments; `counted`: ghost has a control block
    unsafe fn view_ops(b: &mut Bytes, g: &Ghost, counted: bool) {
        let op: u8 = kani::any();
        kani::assume(op < 7);
        let base = b.ptr;
        let len = g.len;
        let r0 = if counted { cnt(g) } else { 0 };
        let mut extra_handles = 0usize;
        let mut other: Option<Bytes> = None;
        let (mut lo, mut hi) = (0usize, len); // model of b afterwards, relative to the old view
        match op {
            0 => {
                let x: usize = kani::any();
                let y: usize = kani::any();
                kani::assume(x <= y && y <= len);
                let s = b.slice(x..y);
                assert!(s.len == y - x);
                if y > x {
                    assert!(s.ptr == base.add(x));
                    extra_handles = 1;
                    let i = any_below(y - x);
                    assert!(s[i] == g.data[g.off + x + i]);
                } else {
                    // empty results are detached static handles
                    assert!(core::ptr::eq(s.vtable, &STATIC_VTABLE));
                }
                other = Some(s);
            }
            1 => {
                let at: usize = kani::any();
                kani::assume(at <= len);
                let t = b.split_off(at);
                assert!(b.len == at && t.len == len - at);
                // address guarantee for non-empty parts.  (For EMPTY results the crate builds the pointer with
                // without_provenance(addr): CBMC's object/offset pointer encoding cannot represent an integer
                // address moved onto the null object, so that clause of C07 is outside what this engine decides.)
                if at > 0 {
                    assert!(b.ptr == base);
                }
                if len - at > 0 {
                    assert!(t.ptr == base.add(at));
                }
                if at != 0 && at != len {
                    extra_handles = 1;
                }
                if len - at > 0 {
                    let i = any_below(len - at);
                    assert!(t[i] == g.data[g.off + at + i]);
                }
                hi = at;
                other = Some(t);
            }
            2 => {
                let at: usize = kani::any();
                kani::assume(at <= len);
                let h = b.split_to(at);
                assert!(h.len == at && b.len == len - at);
                if at > 0 {
                    assert!(h.ptr == base);
                }
                if len - at > 0 {
                    assert!(b.ptr == base.add(at));
                }
                if at != 0 && at != len {
                    extra_handles = 1;
                }
                if at > 0 {
                    let i = any_below(at);
                    assert!(h[i] == g.data[g.off + i]);
                }
                lo = at;
                other = Some(h);
            }
            3 => {
                let n: usize = kani::any();
                b.truncate(n);
                if n > 0 {
                    assert!(b.ptr == base);
                }
                kani::cover!(n < len, "truncate shortens");
                hi = if n < len { n } else { len };
            }
            4 => {
                let n: usize = kani::any();
                kani::assume(n <= len);
                b.advance(n);
                assert!(b.ptr == base.add(n));
                lo = n;
            }
            5 => {
                b.clear();
                hi = 0;
            }
            _ => {
                // slice_ref of a sub-slice obtained through as_ref(): same view as slice(x..y)
                let x: usize = kani::any();
                let y: usize = kani::any();
                kani::assume(x <= y && y <= len);
                let sub = core::slice::from_raw_parts(base.add(x), y - x);
                let s = b.slice_ref(sub);
                assert!(s.len == y - x);
                if y > x {
                    assert!(s.ptr == base.add(x));
                    extra_handles = 1;
                    let i = any_below(y - x);
                    assert!(s[i] == g.data[g.off + x + i]);
                }
                other = Some(s);
            }
        }
        assert!(b.len == hi - lo);
        if hi > lo {
            let i = any_below(hi - lo);
            assert!(b[i] == g.data[g.off + lo + i]);
        }
        if counted {
            // count moved by exactly the number of additional non-empty handles (a split that moves everything
            // swaps the handle instead of cloning)
            let now = cnt(g);
            assert!(now == r0 + extra_handles);
            buf_unchanged(g);
            set_cnt(g, 1 + extra_handles);
        }
        drop(other);
        // C08: with every other handle gone a non-empty handle is again the sole owner and says so (a view operation on a
        // never-cloned promotable buffer must not leave a phantom reference behind)
        if hi > lo {
            assert!(b.is_unique());
        }
    }

    // ================================================================================== promotable (never cloned)
    // @h props=C01,C02,C03,C07,C16 tier=quick flags=leak group=step note=first_clone_promotes(even_address)
    #[kani::proof]
    #[cfg_attr(not(verif_big), kani::unwind(6))]
    #[cfg_attr(verif_big, kani::unwind(11))]
    pub fn promo_clone_even() {
        unsafe { promo_clone() }
    }
    // @h props=C01,C02,C03,C07,C16 tier=quick flags=leak group=step note=first_clone_promotes(odd_address)
    #[kani::proof]
    #[cfg_attr(not(verif_big), kani::unwind(6))]
    #[cfg_attr(verif_big, kani::unwind(11))]
    #[kani::stub(std::alloc::alloc, odd_alloc)]
    #[kani::stub(std::alloc::dealloc, odd_dealloc)]
    #[kani::stub(std::alloc::realloc, odd_realloc)]
#[kani::stub(alloc::alloc::dealloc_nonnull, odd_dealloc_nonnull)]
#[kani::stub(alloc::alloc::realloc_nonnull, odd_realloc_nonnull)]
    pub fn promo_clone_odd() {
        unsafe { promo_clone() }
    }
    unsafe fn promo_clone() {
        let (b, g, even) = st_promo();
        let c = b.clone();
        assert!(c.ptr == b.ptr && c.len == g.len);
        let sh = b.data.load(Ordering::Relaxed) as *mut Shared;
        assert!((sh as usize) & KIND_MASK == KIND_ARC);
        assert!(c.data.load(Ordering::Relaxed) == sh.cast());
        assert!((*sh).buf == g.buf && (*sh).cap == CAP);
        assert!((*sh).ref_cnt.load(Ordering::Relaxed) == 2);
        view_eq(c.as_slice(), &g);
        view_eq(b.as_slice(), &g);
        let first: bool = kani::any();
        if first {
            drop(b);
            view_eq(c.as_slice(), &g);
            drop(c);
        } else {
            drop(c);
            view_eq(b.as_slice(), &g);
            drop(b);
        }
        end_reached!();
    }

    macro_rules! parity_pair {
        ($even:ident, $odd:ident, $body:ident) => {
            #[kani::proof]
            #[cfg_attr(not(verif_big), kani::unwind(6))]
    #[cfg_attr(verif_big, kani::unwind(11))]
            pub fn $even() {
                unsafe { $body(true) }
            }
            #[kani::proof]
            #[cfg_attr(not(verif_big), kani::unwind(6))]
    #[cfg_attr(verif_big, kani::unwind(11))]
            #[kani::stub(std::alloc::alloc, odd_alloc)]
            #[kani::stub(std::alloc::dealloc, odd_dealloc)]
            #[kani::stub(std::alloc::realloc, odd_realloc)]
#[kani::stub(alloc::alloc::dealloc_nonnull, odd_dealloc_nonnull)]
#[kani::stub(alloc::alloc::realloc_nonnull, odd_realloc_nonnull)]
            pub fn $odd() {
                unsafe { $body(false) }
            }
        };
    }

    unsafe fn promo_to_vec(expect_even: bool) {
        let (b, g, even) = st_promo();
        assert!(even == expect_even);
        let v: Vec<u8> = b.into();
        view_eq(&v, &g);
        assert!(v.as_ptr() == g.buf as *const u8 && v.capacity() == CAP);
        end_reached!();
    }
    parity_pair!(promo_to_vec_even, promo_to_vec_odd, promo_to_vec);

    unsafe fn promo_to_mut(expect_even: bool) {
        let (b, g, even) = st_promo();
        assert!(even == expect_even);
        let old = b.ptr;
        assert!(b.is_unique());
        let m: BytesMut = b.into();
        view_eq(&m[..], &g);
        assert!(m.as_ptr() == old && m.capacity() == g.len);
        end_reached!();
    }
    parity_pair!(promo_to_mut_even, promo_to_mut_odd, promo_to_mut);

    unsafe fn promo_drop(expect_even: bool) {
        let (b, g, even) = st_promo();
        assert!(even == expect_even);
        drop(b);
        end_reached!();
    }
    parity_pair!(promo_drop_even, promo_drop_odd, promo_drop);

    unsafe fn promo_view_ops(expect_even: bool) {
        let (mut b, g, even) = st_promo();
        assert!(even == expect_even);
        view_ops(&mut b, &g, false);
        end_reached!();
    }
    parity_pair!(promo_view_ops_even, promo_view_ops_odd, promo_view_ops);

    // ================================================================================== constructors establish the invariants (base cases)
    unsafe fn from_vec_exact(expect_even: bool) {
        let data: [u8; CAP] = kani::any();
        let mut v: Vec<u8> = Vec::with_capacity(CAP);
        v.extend_from_slice(&data);
        let buf = v.as_ptr();
        let b = Bytes::from(v);
        let even = (buf as usize) & 1 == 0;
        assert!(even == expect_even);
        assert!(b.ptr == buf && b.len == CAP);
        if even {
            assert!(core::ptr::eq(b.vtable, &PROMOTABLE_EVEN_VTABLE));
            assert!(b.data.load(Ordering::Relaxed) as usize == buf as usize | KIND_VEC);
        } else {
            assert!(core::ptr::eq(b.vtable, &PROMOTABLE_ODD_VTABLE));
            assert!(b.data.load(Ordering::Relaxed) as usize == buf as usize);
        }
        drop(b);
        end_reached!();
    }
    parity_pair!(ctor_from_vec_exact_even, ctor_from_vec_exact_odd, from_vec_exact);

    // @h props=C01,C02,C03,C07 tier=quick flags=leak group=step note=From<Vec>_with_spare_capacity_establishes_I-shared
    #[kani::proof]
    #[cfg_attr(not(verif_big), kani::unwind(6))]
    #[cfg_attr(verif_big, kani::unwind(11))]
    pub fn ctor_from_vec_spare() {
        unsafe {
            let data: [u8; 3] = kani::any();
            let mut v: Vec<u8> = Vec::with_capacity(CAP);
            v.extend_from_slice(&data);
            let buf = v.as_ptr();
            let b = Bytes::from(v);
            assert!(b.ptr == buf && b.len == 3);
            assert!(core::ptr::eq(b.vtable, &SHARED_VTABLE));
            let sh = b.data.load(Ordering::Relaxed) as *mut Shared;
            assert!((*sh).buf as *const u8 == buf && (*sh).cap == CAP && (*sh).ref_cnt.load(Ordering::Relaxed) == 1);
            drop(b);
            end_reached!();
        }
    }

    // ================================================================================== ptr_map twin and tag algebra (both cfg builds)
    // @h props=C01,C02,C03,C08,C16 tier=quick group=tags note=ptr_map_equals_the_integer_function_for_all_addresses
    #[kani::proof]
    pub fn ptr_map_twin() {
        let a: usize = kani::any();
        // CBMC encodes a pointer as (object:16 bits | offset:48 bits); an integer address moved onto the null object is
        // representable only below 2^47 - which is every user-space address on the one target compiled here (x86-64)
        kani::assume(a >= 2 && a < (1usize << 47));
        let p = core::ptr::null_mut::<u8>().wrapping_add(a);
        assert!(ptr_map(p, |x| x | KIND_VEC) as usize == a | KIND_VEC);
        assert!(ptr_map(p, |x| x & !KIND_MASK) as usize == a & !KIND_MASK);
        // tag algebra used by the promotable vtables
        if a & 1 == 0 {
            assert!((a | KIND_VEC) & KIND_MASK == KIND_VEC);
            assert!((a | KIND_VEC) & !KIND_MASK == a);
        } else {
            assert!(a & KIND_MASK == KIND_VEC);
        }
        assert!(core::mem::align_of::<Shared>() % 2 == 0);
        kani::cover!(true, "END_REACHED");
    }

    // ================================================================================== static and owner-backed
    static SBUF: [u8; CAP] = [7; CAP];

    // @h props=C01,C03,C07,C08 tier=quick flags=leak group=step note=static_vtable_all_entries
    #[kani::proof]
    #[cfg_attr(not(verif_big), kani::unwind(6))]
    #[cfg_attr(verif_big, kani::unwind(11))]
    pub fn static_ops() {
        let (off, len) = any_view();
        let b = Bytes::from_static(&SBUF[off..off + len]);
        assert!(b.data.load(Ordering::Relaxed).is_null());
        assert!(!b.is_unique());
        let c = b.clone();
        assert!(c.ptr == b.ptr && c.len == len);
        let op: u8 = kani::any();
        match op {
            0 => {
                let v: Vec<u8> = c.into();
                assert!(v.len() == len);
                if len > 0 {
                    let i = any_below(len);
                    assert!(v[i] == SBUF[off + i]);
                }
            }
            1 => {
                let m: BytesMut = c.into();
                assert!(m.len() == len);
                if len > 0 {
                    let i = any_below(len);
                    assert!(m[i] == SBUF[off + i]);
                    assert!(m.as_ptr() != b.ptr);
                }
            }
            _ => {
                assert!(c.try_into_mut().is_err());
            }
        }
        if len > 0 {
            let i = any_below(len);
            assert!(b[i] == SBUF[off + i]);
        }
        end_reached!();
    }

    pub static mut AS_REF_CALLS: usize = 0;
    pub static mut DROPS: usize = 0;
    pub struct Own(pub [u8; CAP]);
    impl AsRef<[u8]> for Own {
        fn as_ref(&self) -> &[u8] {
            unsafe { AS_REF_CALLS += 1 };
            &self.0
        }
    }
    impl Drop for Own {
        fn drop(&mut self) {
            unsafe { DROPS += 1 };
        }
    }

    /// I-owned: from_owner state with an arbitrary reference count and an arbitrary view of the owner's bytes
    unsafe fn st_owned() -> (Bytes, [u8; CAP], usize, usize, usize, *mut OwnedLifetime) {
        let data: [u8; CAP] = kani::any();
        AS_REF_CALLS = 0;
        DROPS = 0;
        let mut b = Bytes::from_owner(Own(data));
        assert!(AS_REF_CALLS == 1 && DROPS == 0);
        let (off, len) = any_view();
        b.ptr = b.ptr.add(off);
        b.len = len;
        let lt = b.data.load(Ordering::Relaxed) as *mut OwnedLifetime;
        let r = any_refcount();
        (*lt).ref_cnt.store(r, Ordering::Relaxed);
        (b, data, off, len, r, lt)
    }

    // @h props=C01,C02,C03,C07,C08 tier=quick flags=leak group=step note=owner_backed_vtable_all_entries_from_arbitrary_count
    #[kani::proof]
    #[cfg_attr(not(verif_big), kani::unwind(6))]
    #[cfg_attr(verif_big, kani::unwind(11))]
    pub fn owned_ops() {
        unsafe {
            let (b, data, off, len, r, lt) = st_owned();
            let op: u8 = kani::any();
            kani::assume(op < 5);
            let base = b.ptr;
            assert!(!b.is_unique());
            let mut live = 1usize; // real handles on the owner after the operation
            match op {
                0 => {
                    let c = b.clone();
                    assert!(c.ptr == base && c.len == len);
                    assert!((*lt).ref_cnt.load(Ordering::Relaxed) == r + 1);
                    assert!(DROPS == 0);
                    (*lt).ref_cnt.store(2, Ordering::Relaxed);
                    drop(c);
                    assert!(DROPS == 0);
                    drop(b);
                    assert!(DROPS == 1);
                    live = 0;
                }
                1 => {
                    // converting a view copies; the owner is released exactly when this was the last view
                    let v: Vec<u8> = b.into();
                    assert!(v.len() == len);
                    if len > 0 {
                        let i = any_below(len);
                        assert!(v[i] == data[off + i]);
                    }
                    assert!(DROPS == if r == 1 { 1 } else { 0 });
                    live = 0;
                }
                2 => {
                    let m: BytesMut = b.into();
                    assert!(m.len() == len);
                    if len > 0 {
                        let i = any_below(len);
                        assert!(m[i] == data[off + i]);
                    }
                    assert!(DROPS == if r == 1 { 1 } else { 0 });
                    live = 0;
                }
                3 => {
                    match b.try_into_mut() {
                        Ok(_) => assert!(false, "owner-backed data is never unique"),
                        Err(b2) => {
                            assert!(b2.ptr == base && (*lt).ref_cnt.load(Ordering::Relaxed) == r);
                            (*lt).ref_cnt.store(1, Ordering::Relaxed);
                            drop(b2);
                            assert!(DROPS == 1);
                            live = 0;
                        }
                    }
                }
                _ => {
                    drop(b);
                    assert!(DROPS == if r == 1 { 1 } else { 0 });
                    live = 0;
                }
            }
            if op != 0 && op != 3 && r != 1 {
                // other views exist: the owner is alive; release the ghost references
                assert!((*lt).ref_cnt.load(Ordering::Relaxed) == r - 1);
                (*lt).ref_cnt.store(1, Ordering::Relaxed);
                owned_drop_impl(lt.cast());
                assert!(DROPS == 1);
            }
            assert!(AS_REF_CALLS == 1);
            kani::cover!(op == 1 && r == 1, "last view converted: owner dropped by the conversion");
            end_reached!();
        }
    }

    // @h props=C01,C02,C03,C07 tier=quick flags=witness group=step
    #[kani::proof]
    #[cfg_attr(not(verif_big), kani::unwind(6))]
    #[cfg_attr(verif_big, kani::unwind(11))]
    pub fn witness() {
        unsafe {
            let (b, g) = st_shared(&SHARED_VTABLE);
            let c = b.clone();
            assert!(cnt(&g) == g.r + 1);
            assert!(false, "VACUITY_WITNESS");
        }
    }


    // ================================================================================== F-OOC: out-of-contract arguments (C13 clause i)
    // The contract-panic site of the method is the only check allowed to fail; the call must not return; every
    // memory-safety / overflow check must hold for the whole out-of-contract region (symbolic over all of usize).
    macro_rules! ooc {
        ($name:ident, |$b:ident, $g:ident| $body:block) => {
            #[kani::proof]
            #[cfg_attr(not(verif_big), kani::unwind(6))]
    #[cfg_attr(verif_big, kani::unwind(11))]
            pub fn $name() {
                unsafe {
                    let (mut $b, $g) = st_shared(&SHARED_VTABLE);
                    end_reached!();
                    $body;
                    assert!(false, "RETURNED: out-of-contract call returned");
                }
            }
        };
    }
    // @h props=C13,C02 tier=quick group=ooc allow=@PANIC@ must_fail=@PANIC@ note=Bytes::slice(begin>end_or_end>len)
    ooc!(ooc_slice, |b, g| {
        let x: usize = kani::any();
        let y: usize = kani::any();
        kani::assume(x > y || y > g.len);
        let _ = b.slice(x..y);
    });
    // @h props=C13,C02 tier=quick group=ooc allow=@PANIC@ must_fail=@PANIC@ note=Bytes::slice(..=usize::MAX)
    ooc!(ooc_slice_inclusive_max, |b, g| {
        let x: usize = kani::any();
        let _ = b.slice(x..=usize::MAX);
    });
    // @h props=C13,C02 tier=quick group=ooc allow=@PANIC@ must_fail=@PANIC@ note=Bytes::split_off(at>len)
    ooc!(ooc_split_off, |b, g| {
        let at: usize = kani::any();
        kani::assume(at > g.len);
        let _ = b.split_off(at);
    });
    // @h props=C13,C02 tier=quick group=ooc allow=@PANIC@ must_fail=@PANIC@ note=Bytes::split_to(at>len)
    ooc!(ooc_split_to, |b, g| {
        let at: usize = kani::any();
        kani::assume(at > g.len);
        let _ = b.split_to(at);
    });
    // @h props=C13,C02 tier=quick group=ooc allow=@PANIC@ must_fail=@PANIC@ note=Bytes::advance(n>len)
    ooc!(ooc_advance, |b, g| {
        let n: usize = kani::any();
        kani::assume(n > g.len);
        b.advance(n);
    });
    // @h props=C13,C02 tier=quick group=ooc allow=@PANIC@ must_fail=@PANIC@ note=Bytes::slice_ref(foreign_or_overhanging_slice)
    ooc!(ooc_slice_ref, |b, g| {
        // a non-empty sub-slice of the SAME allocation that is not inside the view (before it, behind it or
        // overhanging), or a slice of a different allocation
        let foreign: bool = kani::any();
        let other = [1u8, 2, 3, 4];
        if foreign {
            let _ = b.slice_ref(&other[1..3]);
        } else {
            let o: usize = kani::any();
            let l: usize = kani::any();
            kani::assume(o <= CAP && l >= 1 && l <= CAP - o);
            kani::assume(o < g.off || o + l > g.off + g.len);
            let s = core::slice::from_raw_parts(g.buf.add(o) as *const u8, l);
            let _ = b.slice_ref(s);
        }
    });

    // @h props=C13,C01 tier=quick flags=leak group=ooc note=documented_no-ops:truncate_beyond_len_leaves_the_handle_bit-identical
    #[kani::proof]
    #[cfg_attr(not(verif_big), kani::unwind(6))]
    #[cfg_attr(verif_big, kani::unwind(11))]
    pub fn noop_truncate() {
        unsafe {
            let (mut b, g) = st_shared(&SHARED_VTABLE);
            let n: usize = kani::any();
            kani::assume(n >= g.len);
            let (p, l, d) = (b.ptr, b.len, b.data.load(Ordering::Relaxed));
            b.truncate(n);
            assert!(b.ptr == p && b.len == l && b.data.load(Ordering::Relaxed) == d && cnt(&g) == g.r);
            set_cnt(&g, 1);
            end_reached!();
        }
    }

    // ================================================================================== C05 (E1 part): the promotion race on the real code
    // Two threads clone through one shared `&Bytes` that is still unpromoted.  Both read the tagged pointer, both
    // allocate a control block, one compare_exchange wins.  The loser's continuation is executed here with its
    // STALE snapshot after the winner's complete clone: it must free only its own control block, adopt the winner's
    // block and count itself there.  (Every other function of the concurrent alphabet is a single atomic
    // read-modify-write followed by thread-local work, so its interleavings are sequences and are F-STEP's.)
    unsafe fn lost_promotion_race(expect_even: bool) {
        let (b, g, even) = st_promo();
        assert!(even == expect_even);
        // thread B (the loser) has read data and computed buf, then is preempted
        let snapshot = b.data.load(Ordering::Acquire);
        // thread A: complete clone through the same &Bytes: promotes
        let a = b.clone();
        let winner = b.data.load(Ordering::Relaxed) as *mut Shared;
        assert!((*winner).ref_cnt.load(Ordering::Relaxed) == 2);
        // thread B continues with the stale snapshot
        let c = shallow_clone_vec(&b.data, snapshot as *const (), g.buf, b.ptr, b.len);
        assert!(c.ptr == b.ptr && c.len == b.len);
        assert!(c.data.load(Ordering::Relaxed) == winner.cast());
        assert!(b.data.load(Ordering::Relaxed) == winner.cast());
        assert!((*winner).ref_cnt.load(Ordering::Relaxed) == 3);
        assert!((*winner).buf == g.buf && (*winner).cap == CAP);
        view_eq(c.as_slice(), &g);
        view_eq(a.as_slice(), &g);
        view_eq(b.as_slice(), &g);
        // all three handles go away in any order: buffer freed exactly once, loser's block already freed
        let order: u8 = kani::any();
        kani::assume(order < 3);
        match order {
            0 => {
                drop(a);
                drop(b);
                view_eq(c.as_slice(), &g);
                drop(c);
            }
            1 => {
                drop(c);
                drop(a);
                view_eq(b.as_slice(), &g);
                drop(b);
            }
            _ => {
                drop(b);
                drop(c);
                view_eq(a.as_slice(), &g);
                drop(a);
            }
        }
        end_reached!();
    }
    // @reg name=lost_promotion_race_even props=C05,C03,C02 tier=quick flags=leak group=race note=loser_of_the_promotion_CAS_continues_with_a_stale_snapshot(even_address)
    // @reg name=lost_promotion_race_odd props=C05,C03,C02,C16 tier=quick flags=leak group=race note=loser_of_the_promotion_CAS_continues_with_a_stale_snapshot(odd_address)
    parity_pair!(lost_promotion_race_even, lost_promotion_race_odd, lost_promotion_race);

    // @h props=C05,C03 tier=quick flags=leak group=race note=conversion_racing_with_a_clone:into_vec/into_mut_of_a_handle_whose_sibling_appeared_after_the_uniqueness_was_assumed
    #[kani::proof]
    #[cfg_attr(not(verif_big), kani::unwind(6))]
    #[cfg_attr(verif_big, kani::unwind(11))]
    pub fn convert_after_sibling_clone() {
        unsafe {
            // T1 is about to convert its (unique) shared handle; T2 clones a second handle it owns first.  Whatever
            // T1 then does must not take the buffer away from T2's clone: exactly one party may take it zero-copy.
            let (b, g) = st_shared(&SHARED_VTABLE);
            kani::assume(g.r == 2);
            let other = Bytes { ptr: g.buf.add(g.off), len: g.len, data: AtomicPtr::new(g.sh.cast()), vtable: &SHARED_VTABLE };
            let t2_clone = other.clone();
            let to_vec: bool = kani::any();
            if to_vec {
                let v: Vec<u8> = b.into();
                assert!(v.as_ptr() != g.buf as *const u8);
                view_eq(&v, &g);
            } else {
                let m: BytesMut = b.into();
                assert!(m.as_ptr() != g.buf as *const u8 || g.len == 0);
                view_eq(&m[..], &g);
            }
            view_eq(other.as_slice(), &g);
            view_eq(t2_clone.as_slice(), &g);
            assert!(cnt(&g) == 2);
            drop(other);
            // the last handle may now take the buffer without copying
            assert!(t2_clone.is_unique());
            let m: BytesMut = t2_clone.into();
            assert!(m.as_ptr() == g.buf.add(g.off) as *const u8);
            end_reached!();
        }
    }
