// Allocator stubs shared by the in-crate and the external harnesses (include!-d).
// `odd_*`: the allocator of tests/test_bytes_odd_alloc.rs as Kani stubs: byte buffers (align 1) get one extra
// byte in front and the returned address is base + 1, i.e. ODD, so `Bytes::from(Box<[u8]>)` really selects
// PROMOTABLE_ODD_VTABLE.  Everything forwards to `System`, i.e. to CBMC's malloc/free model, so use-after-free,
// bounds and Kani's dealloc-size check stay in force.
pub unsafe fn odd_alloc(layout: core::alloc::Layout) -> *mut u8 {
    use std::alloc::{GlobalAlloc, System};
    if layout.align() == 1 && layout.size() > 0 {
        let p = System.alloc(core::alloc::Layout::from_size_align_unchecked(layout.size() + 1, 1));
        p.add(1)
    } else {
        System.alloc(layout)
    }
}
pub unsafe fn odd_dealloc(ptr: *mut u8, layout: core::alloc::Layout) {
    use std::alloc::{GlobalAlloc, System};
    if layout.align() == 1 && layout.size() > 0 {
        System.dealloc(ptr.sub(1), core::alloc::Layout::from_size_align_unchecked(layout.size() + 1, 1))
    } else {
        System.dealloc(ptr, layout)
    }
}
pub unsafe fn odd_realloc(ptr: *mut u8, layout: core::alloc::Layout, new_size: usize) -> *mut u8 {
    use std::alloc::{GlobalAlloc, System};
    if layout.align() == 1 && layout.size() > 0 {
        let n = odd_alloc(core::alloc::Layout::from_size_align_unchecked(new_size, 1));
        let k = if layout.size() < new_size { layout.size() } else { new_size };
        core::ptr::copy_nonoverlapping(ptr, n, k);
        odd_dealloc(ptr, layout);
        n
    } else {
        System.realloc(ptr, layout, new_size)
    }
}
// std's Global allocator frees / reallocates through the private *_nonnull twins, which must be stubbed as well
pub unsafe fn odd_dealloc_nonnull(ptr: core::ptr::NonNull<u8>, layout: core::alloc::Layout) {
    odd_dealloc(ptr.as_ptr(), layout)
}
pub unsafe fn odd_realloc_nonnull(ptr: core::ptr::NonNull<u8>, layout: core::alloc::Layout, new_size: usize) -> *mut u8 {
    odd_realloc(ptr.as_ptr(), layout, new_size)
}

// Counting allocator stubs ("ledger"): forward to System and count events, so that a harness can assert that an
// operation performed NO allocator event (try_reclaim, reclaiming reserve) or exactly the expected ones.
pub static mut N_ALLOC: usize = 0;
pub static mut N_ALLOC_BYTEBUF: usize = 0;
pub static mut N_DEALLOC: usize = 0;
pub static mut N_REALLOC: usize = 0;
pub static mut LAST_ALLOC_SIZE: usize = 0;
pub unsafe fn cnt_alloc(layout: core::alloc::Layout) -> *mut u8 {
    use std::alloc::{GlobalAlloc, System};
    N_ALLOC += 1;
    if layout.align() == 1 {
        N_ALLOC_BYTEBUF += 1;
        LAST_ALLOC_SIZE = layout.size();
    }
    System.alloc(layout)
}
pub unsafe fn cnt_dealloc(ptr: *mut u8, layout: core::alloc::Layout) {
    use std::alloc::{GlobalAlloc, System};
    N_DEALLOC += 1;
    System.dealloc(ptr, layout)
}
pub unsafe fn cnt_dealloc_nonnull(ptr: core::ptr::NonNull<u8>, layout: core::alloc::Layout) {
    cnt_dealloc(ptr.as_ptr(), layout)
}
pub unsafe fn cnt_realloc(ptr: *mut u8, layout: core::alloc::Layout, new_size: usize) -> *mut u8 {
    use std::alloc::{GlobalAlloc, System};
    N_REALLOC += 1;
    if layout.align() == 1 {
        N_ALLOC_BYTEBUF += 1;
        LAST_ALLOC_SIZE = new_size;
    }
    System.realloc(ptr, layout, new_size)
}
pub unsafe fn cnt_realloc_nonnull(ptr: core::ptr::NonNull<u8>, layout: core::alloc::Layout, new_size: usize) -> *mut u8 {
    cnt_realloc(ptr.as_ptr(), layout, new_size)
}
pub unsafe fn alloc_events() -> usize {
    N_ALLOC + N_DEALLOC + N_REALLOC
}
